----------------------------- MODULE ImageLife -----------------------------
(***************************************************************************)
(* X02: the life cycle / attribute state machine of ONE old-API image      *)
(* object (animated or not, from a PIL image or from a file, of any of the *)
(* three render styles) over ImageLifeCore.  One NAMED action per API      *)
(* operation and per way of being rejected; documented-vs-actual           *)
(* deviations are actions of their own (marked DEVIATION).                 *)
(*                                                                         *)
(* Environment of the model (and of the edge replay): source 6 x 4 px,     *)
(* terminal 12 x 10, cell 2 x 4 px, cell ratio 1/2 - chosen so that every  *)
(* sizing request of the alphabets has an EXACT integral answer (ExactEnv: *)
(* the relation of check C04 admits exactly one size, the one Algo gives), *)
(* so comparing numbers for equality demands no more than the property.    *)
(***************************************************************************)
EXTENDS ImageLifeCore, Json

CONSTANTS
  Rich,     \* TRUE: the large argument alphabets
  ClsSet    \* classes explored (the edge dump is run once per class, in parallel)

VARIABLES c, s, out
vars == <<c, s, out>>
View == <<c, s>>

NFrames == 3
Cfg(cls, src, anim, d) ==
  [cls |-> cls, src |-> src, anim |-> anim, n |-> IF anim THEN NFrames ELSE 1, dur0 |-> d,
   ow |-> 6, oh |-> 4, tc |-> 12, tl |-> 10, cw |-> 2, ch |-> 4]
Dur0s == IF Rich THEN {"0.04", DefaultDuration} ELSE {"0.04"}
Configs ==
  {Cfg(cls, src, TRUE, d) : cls \in ClsSet, src \in {"pil", "file"}, d \in Dur0s}
  \cup {Cfg(cls, src, FALSE, "none") : cls \in ClsSet, src \in {"pil", "file"}}
ASSUME \A k \in Configs : WFConfig(k)

---------------------------------------------------------------------------
(* Alphabets                                                                *)
P(a, b) == <<a, b>>
F62 == TupV(<<EInt(6), EInt(2)>>)
FRel == TupV(<<EInt(-6), EInt(-6)>>)

NewArgs == {P(NoneV, NoneV), P(IntV(3), NoneV), P(IntV(5), IntV(7))}
           \cup (IF Rich THEN {P(NoneV, IntV(2)), P(SizeV("FIT"), NoneV), P(NoneV, SizeV("ORIGINAL"))} ELSE {})
NewBadArgs == {P(IntV(0), NoneV), P(IntV(3), SizeV("FIT"))}
              \cup (IF Rich THEN {P(StrV("x"), NoneV), P(NoneV, IntV(-2)), P(FloatV(1, "2.5"), NoneV),
                                  P(SizeV("FIT"), SizeV("FIT"))} ELSE {})
GoodSrc == IF HasPil(c) THEN {"good"} ELSE (IF Rich THEN {"good", "pathlike"} ELSE {"good"})
BadSrc == IF HasPil(c) THEN (IF Rich THEN {"notimage", "null"} ELSE {"notimage"})
          ELSE (IF Rich THEN {"nonstr", "missing", "dir", "junk"} ELSE {"missing"})
NewOp(p, x, y, z) == Op("new", p[1], p[2], NoneV, x, y, z)

SeekGood == {IntV(k) : k \in 0..(c.n - 1)}
SeekBad == {IntV(c.n), StrV("1")}
           \cup (IF Rich THEN {IntV(-1), IntV(c.n + 4), FloatV(1, "1.0"), NoneV} ELSE {})

FdGood == {FloatV(1, "0.5")} \cup (IF Rich THEN {FloatV(1, "2.0")} ELSE {})
FdBad == {IntV(1), FloatV(0, "0.0")}
         \cup (IF Rich THEN {FloatV(-1, "-0.5"), NoneV, StrV("1.0")} ELSE {})

SizeMembers == IF Rich THEN {SizeV(m) : m \in Sz!SizeModes} ELSE {SizeV("FIT"), SizeV("ORIGINAL")}
SizeTuples == {TupV(<<EInt(5), EInt(7)>>), TupV(<<EInt(14), EInt(3)>>)} \cup (IF Rich THEN {TupV(<<EInt(3), EInt(1)>>)} ELSE {})
SizeLax == {TupV(<<EInt(3), ENone>>)}
           \cup (IF Rich THEN {TupV(<<ENone, ENone>>), TupV(<<ESize("ORIGINAL"), ENone>>)} ELSE {})
SizeBad == {TupV(<<EInt(3)>>), ListV(<<EInt(3), EInt(4)>>)}
           \cup (IF Rich THEN {TupV(<<EInt(0), EInt(3)>>), TupV(<<EInt(1), EInt(2), EInt(3)>>), IntV(7), NoneV,
                               TupV(<<EFloat(1, "2.0"), EInt(3)>>), TupV(<<EInt(3), ESize("FIT")>>), StrV("FIT")}
                 ELSE {})

WidthGood == {IntV(3)} \cup (IF Rich THEN {IntV(6), SizeV("FIT"), SizeV("ORIGINAL"), NoneV} ELSE {})
WidthBad == {IntV(0)} \cup (IF Rich THEN {IntV(-3), FloatV(1, "2.5"), StrV("3")} ELSE {})
HeightGood == {SizeV("AUTO")} \cup (IF Rich THEN {IntV(1), IntV(2), SizeV("FIT_TO_WIDTH"), NoneV} ELSE {})
HeightBad == {FloatV(1, "1.5")} \cup (IF Rich THEN {IntV(0)} ELSE {})

T3(a, b, f) == <<a, b, f>>
SetSizeGood == {T3(NoneV, NoneV, AbsentV), T3(SizeV("FIT"), NoneV, F62)}
               \cup (IF Rich THEN {T3(IntV(3), NoneV, AbsentV), T3(NoneV, IntV(2), AbsentV),
                                   T3(IntV(5), IntV(7), AbsentV), T3(SizeV("FIT"), NoneV, AbsentV),
                                   T3(NoneV, SizeV("ORIGINAL"), AbsentV), T3(SizeV("AUTO"), NoneV, FRel),
                                   T3(IntV(3), NoneV, F62)} ELSE {})
SetSizeBad == {T3(IntV(3), SizeV("FIT"), AbsentV), T3(NoneV, NoneV, TupV(<<EInt(1), EInt(2), EInt(3)>>))}
              \cup (IF Rich THEN {T3(IntV(0), NoneV, AbsentV), T3(StrV("x"), NoneV, AbsentV),
                                  T3(SizeV("FIT"), SizeV("FIT"), AbsentV), T3(NoneV, NoneV, StrV("x")),
                                  T3(NoneV, NoneV, TupV(<<EFloat(1, "1.0"), EInt(2)>>)),
                                  T3(NoneV, NoneV, ListV(<<EInt(1), EInt(2)>>)),
                                  T3(IntV(3), NoneV, StrV("x"))} ELSE {})
SetSizeOp(t) == Op("set_size", t[1], t[2], t[3], "", "", "")

FormatGood == {""} \cup (IF Rich THEN {"#"} ELSE {})
FormatBad == {"x"} \cup (IF Rich THEN {"5."} ELSE {})
WithBodies == {"pass"} \cup (IF Rich THEN {"raise"} ELSE {})
RoAttrs == IF Rich THEN ReadOnlyAttrs ELSE {"closed"}
DelAttrs == IF Rich THEN {"size", "closed", "frame_duration"} ELSE {"size"}
Vias == IF Rich /\ ~IsSub(c.cls) THEN {"class", "factory"} ELSE {"class"}

---------------------------------------------------------------------------
NoOut == [act |-> "Init", o |-> Op0("init"), res |-> {"ok"}, ret |-> "-", opens |-> -1]

Init ==
  /\ c \in Configs
  /\ s = Unborn(0)
  /\ out = NoOut

Do(name, o) ==
  /\ Enabled(c, s, o)
  /\ s' = Apply(c, s, o)
  /\ out' = [act |-> name, o |-> o, res |-> LRes(c, s, o),
             ret |-> IF Accepts(c, s, o) THEN Ret(c, s, o) ELSE "-", opens |-> Opens(c, s, o)]
  /\ UNCHANGED c

IsUnborn == s.ph = "unborn"
IsOpen == s.ph = "open"
IsClosed == s.ph = "closed"

\* --- construction ---------------------------------------------------------
New == IsUnborn /\ \E p \in NewArgs, x \in GoodSrc :
         Do("New", NewOp(p, x, "class", "native"))
\* AutoImage(img, ...) / from_file(path, ...): "an instance of the automatically selected style"
NewViaFactory == IsUnborn /\ ~IsSub(c.cls) /\ \E p \in (IF Rich THEN NewArgs ELSE {P(NoneV, NoneV)}) :
         Do("NewViaFactory", NewOp(p, "good", "factory", "native"))
NewInvalidSize == IsUnborn /\ \E p \in NewBadArgs, y \in Vias :
         Do("NewInvalidSize", NewOp(p, "good", y, "native"))
NewBadSource == IsUnborn /\ \E x \in BadSrc, y \in Vias :
         Do("NewBadSource", NewOp(P(NoneV, NoneV), x, y, "native"))
NewUnsupportedStyle == IsUnborn /\ Fam(c.cls) = "gfx" /\
         Do("NewUnsupportedStyle", NewOp(P(NoneV, NoneV), "good", "class", "foreign"))
NewTextAnyTerminal == IsUnborn /\ Fam(c.cls) = "text" /\
         Do("NewTextAnyTerminal", NewOp(P(NoneV, NoneV), "good", "class", "foreign"))
FromUrlValidated == IsUnborn /\ \E y \in Vias :
         Do("FromUrlValidated", Op("new_url", NoneV, NoneV, NoneV, "full", y, ""))
FromUrlInvalid == IsUnborn /\ \E x \in {"nonstr", "noscheme", "nonetloc"}, y \in Vias :
         Do("FromUrlInvalid", Op("new_url", NoneV, NoneV, NoneV, x, y, ""))
\* DEVIATION: scheme://host without a path is called invalid
FromUrlNoPath == IsUnborn /\ Do("FromUrlNoPath", Op("new_url", NoneV, NoneV, NoneV, "nopath", "class", ""))
AutoClass == IsUnborn /\ \E z \in TermKinds : Do("AutoClass", Op("auto", NoneV, NoneV, NoneV, "", "", z))

\* --- finalization ---------------------------------------------------------
Close == IsOpen /\ Do("Close", Op0("close"))
CloseAgain == IsClosed /\ Do("CloseAgain", Op0("close"))        \* "can be safely called multiple times"
With == Live(s) /\ \E x \in WithBodies : Do("With", OpX("with", x))
Drop == Live(s) /\ Do("Drop", Op0("drop"))                       \* del + garbage collection

\* --- frames ---------------------------------------------------------------
Seek == IsOpen /\ \E a \in SeekGood : Do("Seek", Op1("seek", a))
SeekInvalid == Live(s) /\ \E a \in SeekBad : Do("SeekInvalid", Op1("seek", a))
SeekFinalizedUncounted == IsClosed /\ NeedsCount(c, s) /\ \E a \in SeekGood :
         Do("SeekFinalizedUncounted", Op1("seek", a))
\* DEVIATION: a finalized image that has computed its frame count (or needs none) still seeks
SeekFinalizedCounted == IsClosed /\ ~NeedsCount(c, s) /\ \E a \in SeekGood :
         Do("SeekFinalizedCounted", Op1("seek", a))
NFramesGet == Live(s) /\ ~(IsClosed /\ NeedsCount(c, s)) /\ Do("NFramesGet", Op0("n_frames"))
NFramesFinalized == IsClosed /\ NeedsCount(c, s) /\ Do("NFramesFinalized", Op0("n_frames"))
Source == IsOpen /\ Do("Source", Op0("source"))
SourceFinalized == IsClosed /\ Do("SourceFinalized", Op0("source"))
SetFrameDuration == Live(s) /\ c.anim /\ \E a \in FdGood : Do("SetFrameDuration", Op1("set_fd", a))
\* "If the image is animated, the frame duration is set.  Otherwise, nothing is done."
SetFrameDurationIgnored == Live(s) /\ ~c.anim /\ \E a \in FdGood : Do("SetFrameDurationIgnored", Op1("set_fd", a))
SetFrameDurationInvalid == Live(s) /\ \E a \in FdBad : Do("SetFrameDurationInvalid", Op1("set_fd", a))
PilSeek == HasPil(c) /\ c.anim /\ \E k \in 0..(c.n - 1) : Do("PilSeek", Op1("pilseek", IntV(k)))

\* --- size -----------------------------------------------------------------
SizeSetMember == Live(s) /\ \E a \in SizeMembers : Do("SizeSetMember", Op1("size=", a))
SizeSetTuple == Live(s) /\ \E a \in SizeTuples : Do("SizeSetTuple", Op1("size=", a))
\* DEVIATION: "2-tuple of integers", but None / Size members inside the tuple are taken
SizeSetTupleLax == Live(s) /\ \E a \in SizeLax : Do("SizeSetTupleLax", Op1("size=", a))
SizeSetInvalid == Live(s) /\ \E a \in SizeBad : Do("SizeSetInvalid", Op1("size=", a))
WidthSet == Live(s) /\ \E a \in WidthGood : Do("WidthSet", Op1("width=", a))
WidthSetInvalid == Live(s) /\ \E a \in WidthBad : Do("WidthSetInvalid", Op1("width=", a))
HeightSet == Live(s) /\ \E a \in HeightGood : Do("HeightSet", Op1("height=", a))
HeightSetInvalid == Live(s) /\ \E a \in HeightBad : Do("HeightSetInvalid", Op1("height=", a))
SetSize == Live(s) /\ \E t \in SetSizeGood : Do("SetSize", SetSizeOp(t))
SetSizeInvalid == Live(s) /\ \E t \in SetSizeBad : Do("SetSizeInvalid", SetSizeOp(t))
\* DEVIATION: with two integers the code never looks at frame_size
SetSizeManualFrameUnchecked == Live(s) /\
         Do("SetSizeManualFrameUnchecked", SetSizeOp(T3(IntV(5), IntV(7), StrV("x"))))

\* --- rendering entry points (acceptance and effect on the STATE only) --------
Render == IsOpen /\ (\/ Do("Render", Op0("str")) \/ (~TooLarge(c, s) /\ Do("Render", Op0("draw")))
                     \/ \E x \in FormatGood : Do("Render", OpX("format", x)))
RenderFinalized == IsClosed /\ (\/ Do("RenderFinalized", Op0("str"))
                                \/ (~TooLarge(c, s) /\ Do("RenderFinalized", Op0("draw")))
                                \/ \E x \in FormatGood : Do("RenderFinalized", OpX("format", x)))
\* draw() validates a size that is set against the terminal size (str / format do not)
DrawTooLarge == Live(s) /\ TooLarge(c, s) /\ Do("DrawTooLarge", Op0("draw"))
FormatInvalid == Live(s) /\ \E x \in FormatBad : Do("FormatInvalid", OpX("format", x))
Iter == IsOpen /\ c.anim /\ Do("Iter", Op0("iter"))
IterNonAnimated == Live(s) /\ ~c.anim /\ Do("IterNonAnimated", Op0("iter"))
IterFinalized == IsClosed /\ c.anim /\ Do("IterFinalized", Op0("iter"))

\* --- attributes that are not writable ----------------------------------------
SetReadOnly == Live(s) /\ \E x \in RoAttrs : Do("SetReadOnly", OpX("set_ro", x))
DelAttr == Live(s) /\ \E x \in DelAttrs : Do("DelAttr", OpX("del_attr", x))
\* forced_support: "Can not be set on an instance"
SetForcedSupportOnInstance == Live(s) /\ Do("SetForcedSupportOnInstance", Op0("set_fs"))

Next ==
  \/ New \/ NewViaFactory \/ NewInvalidSize \/ NewBadSource \/ NewUnsupportedStyle \/ NewTextAnyTerminal
  \/ FromUrlValidated \/ FromUrlInvalid \/ FromUrlNoPath \/ AutoClass
  \/ Close \/ CloseAgain \/ With \/ Drop
  \/ Seek \/ SeekInvalid \/ SeekFinalizedUncounted \/ SeekFinalizedCounted
  \/ NFramesGet \/ NFramesFinalized \/ Source \/ SourceFinalized
  \/ SetFrameDuration \/ SetFrameDurationIgnored \/ SetFrameDurationInvalid \/ PilSeek
  \/ SizeSetMember \/ SizeSetTuple \/ SizeSetTupleLax \/ SizeSetInvalid
  \/ WidthSet \/ WidthSetInvalid \/ HeightSet \/ HeightSetInvalid
  \/ SetSize \/ SetSizeInvalid \/ SetSizeManualFrameUnchecked
  \/ Render \/ RenderFinalized \/ DrawTooLarge \/ FormatInvalid \/ Iter \/ IterNonAnimated \/ IterFinalized
  \/ SetReadOnly \/ DelAttr \/ SetForcedSupportOnInstance

Spec == Init /\ [][Next]_vars

ActionNames ==
  {"New", "NewViaFactory", "NewInvalidSize", "NewBadSource", "NewUnsupportedStyle", "NewTextAnyTerminal",
   "FromUrlValidated", "FromUrlInvalid", "FromUrlNoPath", "AutoClass", "Close", "CloseAgain", "With", "Drop",
   "Seek", "SeekInvalid", "SeekFinalizedUncounted", "SeekFinalizedCounted", "NFramesGet", "NFramesFinalized",
   "Source", "SourceFinalized", "SetFrameDuration", "SetFrameDurationIgnored", "SetFrameDurationInvalid",
   "PilSeek", "SizeSetMember", "SizeSetTuple", "SizeSetTupleLax", "SizeSetInvalid", "WidthSet",
   "WidthSetInvalid", "HeightSet", "HeightSetInvalid", "SetSize", "SetSizeInvalid",
   "SetSizeManualFrameUnchecked", "Render", "RenderFinalized", "DrawTooLarge", "FormatInvalid", "Iter", "IterNonAnimated",
   "IterFinalized", "SetReadOnly", "DelAttr", "SetForcedSupportOnInstance"}

---------------------------------------------------------------------------
(* The environment is exact: for every sizing request of the alphabets the   *)
(* relation of C04 admits exactly the size Algo computes, and no rounding is *)
(* a tie.                                                                    *)
ReqsOfAlphabets ==
  {Req(p[1], p[2], AbsentV) : p \in NewArgs \ {P(NoneV, NoneV)}}
  \cup {Req(TupleW(a), TupleH(a), AbsentV) : a \in SizeTuples \cup SizeLax}
  \cup {Req(a, NoneV, AbsentV) : a \in WidthGood} \cup {Req(NoneV, a, AbsentV) : a \in HeightGood}
  \cup {Req(t[1], t[2], t[3]) : t \in SetSizeGood}
  \cup {[is |-> TRUE, m |-> Sz!Mode(m), fc |-> Sz!DefFC, fl |-> Sz!DefFL] : m \in Sz!SizeModes}
ExactFor(k, r) ==
  LET e == Env(k, r.fc, r.fl)
      a == Sz!Algo(r.m, e)
  IN /\ ~a.tie
     /\ \A W \in 1..16, H \in 1..16 : Sz!SizeRel(r.m, e, <<W, H>>) => <<W, H>> = <<a.w, a.h>>
     /\ a.w <= 16 /\ a.h <= 16
ExactEnv == \A k \in Configs, r \in ReqsOfAlphabets : ExactFor(k, r)
ASSUME ExactEnv
\* the native terminal of each class makes auto_image_class() select that class
ASSUME \A cls \in BaseClasses : AutoOf(NativeTerm(cls)) = cls
\* preference order of auto_image_class(): exhaustive over what a terminal can support
ASSUME \A k \in BOOLEAN, i \in BOOLEAN :
         AutoStyle(k, i) = (IF k THEN "KittyImage" ELSE IF i THEN "ITerm2Image" ELSE "BlockImage")

---------------------------------------------------------------------------
(* State invariants                                                         *)
SizeOK(sz) ==
  \/ sz.k = "dyn" /\ sz.m \in Sz!SizeModes
  \/ sz.k = "fixed" /\ sz.w >= 1 /\ sz.h >= 1

TypeOK ==
  /\ c \in Configs
  /\ s.ph \in {"unborn", "open", "closed"}
  /\ s.pos \in 0..(c.n - 1) /\ s.pt \in 0..(c.n - 1)
  /\ SizeOK(s.sz) /\ s.cn \in BOOLEAN
  /\ out.act \in ActionNames \cup {"Init"}
  /\ out.res # {} /\ out.res \subseteq OkTags \cup {"TypeError", "ValueError", "TermImageError",
       "AttributeError", "StyleError", "InvalidSizeError", "FileNotFoundError", "IsADirectoryError", "UnidentifiedImageError"}

\* "It's allowed to set properties for animated images on non-animated ones, the values are
\* simply ignored": frame 0, no duration, frame count 1 without ever looking at the source
NonAnimatedIgnoresAnimationState ==
  ~c.anim /\ Live(s) => s.pos = 0 /\ s.dur = "none" /\ ~s.cn /\ LObs(c, s).fd = "None"

UnbornIsBlank == s.ph = "unborn" => s = Unborn(s.pt)

\* rendered_size is the size when fixed; rendered_width / rendered_height are its components
RenderedConsistent ==
  Live(s) => LET o == LObs(c, s) IN
               /\ o.rsize = <<o.rw, o.rh>> /\ o.rw >= 1 /\ o.rh >= 1
               /\ s.sz.k = "fixed" => o.rsize = <<s.sz.w, s.sz.h>>

\* width / height read the member when the size is dynamic
WidthHeightMirrorSize ==
  Live(s) => LET o == LObs(c, s) IN
               IF s.sz.k = "dyn" THEN o.width = s.sz.m /\ o.height = s.sz.m
               ELSE o.width = ToString(s.sz.w) /\ o.height = ToString(s.sz.h)

\* the caller's PIL image only ever moves to frames the image object was at
PilOnlyForPilSources == ~(HasPil(c) /\ c.anim) => s.pt = 0

---------------------------------------------------------------------------
(* Action properties                                                        *)
RejectedStep == out'.res \cap OkTags = {}
AcceptedStep == ~RejectedStep

\* a rejected operation leaves EVERY observable attribute unchanged
RejectedChangesNothing == [][RejectedStep => LObs(c, s') = LObs(c, s)]_vars

\* an accepted operation changes only the attributes it is documented to set
FootprintStep ==
  AcceptedStep => LET before == LObs(c, s)
                      after == LObs(c, s')
                  IN \A f \in ObsFields \ Footprint(out'.o.op) : after[f] = before[f]
OnlyOwnAttributesChange == [][FootprintStep]_vars

\* finalization is for ever (until the object is dropped) and only close() / with do it
FinalizedForever == [][s.ph = "closed" => s'.ph = "closed" \/ out'.o.op = "drop"]_vars
OnlyCloseFinalizes == [][s.ph = "open" /\ s'.ph = "closed" => out'.o.op \in {"close", "with"}]_vars
CloseAlwaysAccepted == [][out'.o.op \in {"close", "with", "drop"} => AcceptedStep]_vars

\* what a finalized image refuses: its source and every rendering entry point
FinalizedRefuses ==
  [][s.ph = "closed" /\ (out'.o.op \in {"source", "str", "draw"}
                          \/ (out'.o.op = "iter" /\ c.anim)
                          \/ (out'.o.op = "format" /\ out'.o.x \in GoodSpecs))
     => RejectedStep /\ "TermImageError" \in out'.res]_vars
\* ... and what it keeps answering: the plain attributes (they are part of LObs in every state),
\* the setters of size and frame duration, tell()
FinalizedStillSets ==
  [][s.ph = "closed" /\ out'.o.op \in SizeOps \cup {"set_fd"} /\ Errs(c, [s EXCEPT !.ph = "open"], out'.o) = {}
     => AcceptedStep]_vars

\* n_frames is computed once: the source file is opened for it at most once per object
FrameCountComputedOnce ==
  [][/\ (out'.o.op \in {"n_frames", "seek"} /\ out'.opens = 1 => ~s.cn /\ s'.cn)
     /\ (s.cn /\ out'.o.op # "drop" => s'.cn)]_vars

\* seek moves only with an in-range integer; tell() then reports it
SeekLaw ==
  [][out'.o.op = "seek" =>
       IF AcceptedStep THEN s'.pos = (IF c.anim THEN out'.o.a.i ELSE 0) ELSE s'.pos = s.pos]_vars

\* "the seek position is initialized to the current seek position of the given image"; later
\* movements of either do not move the other, except that rendering a frame positions the source
SeekInitialisedFromSource ==
  [][out'.o.op = "new" /\ AcceptedStep => s'.pos = (IF HasPil(c) /\ c.anim THEN s.pt ELSE 0)]_vars
PilSeekIndependent == [][out'.o.op = "pilseek" => s'.pos = s.pos /\ s'.sz = s.sz]_vars

\* size setters: a Size member through `size` gives a dynamic size, everything else a fixed one
SizeKindLaw ==
  [][AcceptedStep /\ out'.o.op \in SizeOps =>
       IF out'.o.op = "size=" /\ IsMember(out'.o.a) THEN s'.sz = Sz!Dynamic(out'.o.a.s)
       ELSE s'.sz.k = "fixed"]_vars
ConstructorSizeLaw ==
  [][AcceptedStep /\ out'.o.op = "new" =>
       IF IsNoneArg(out'.o.a) /\ IsNoneArg(out'.o.b) THEN s'.sz = Sz!Dynamic("FIT") ELSE s'.sz.k = "fixed"]_vars
\* manual sizing stores the numbers as given
ManualStoredAsGiven ==
  [][AcceptedStep /\ out'.o.op = "set_size" /\ BothInts(out'.o.a, out'.o.b)
     => s'.sz = Sz!Fixed(out'.o.a.i, out'.o.b.i)]_vars

\* frame duration: only a positive float, only on animated images
FrameDurationLaw ==
  [][out'.o.op = "set_fd" =>
       IF AcceptedStep /\ c.anim THEN s'.dur = out'.o.a.s ELSE s'.dur = s.dur]_vars

---------------------------------------------------------------------------
(* Dumps for the replay (spec -> code)                                      *)
CfgId(k) == k.cls \o "/" \o k.src \o "/" \o (IF k.anim THEN "anim" ELSE "still") \o "/" \o k.dur0
Key(k, st) == [cfg |-> CfgId(k), ph |-> st.ph, pos |-> st.pos, sz |-> ShowSz(st.sz), dur |-> st.dur,
               cn |-> st.cn, pt |-> st.pt]

Dump == PrintT(<<"EDGE", ToJson([from |-> Key(c, s), op |-> out', to |-> Key(c, s')])>>)
StateDump == PrintT(<<"STATE", ToJson([key |-> Key(c, s), obs |-> LObs(c, s)])>>)
InitDump ==
  TLCGet("level") = 1 =>
    /\ PrintT(<<"INIT", ToJson(Key(c, s))>>)
    /\ PrintT(<<"CONFIG", ToJson([id |-> CfgId(c), c |-> c])>>)
=============================================================================
