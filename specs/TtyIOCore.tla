----------------------------- MODULE TtyIOCore -----------------------------
(***************************************************************************)
(* X08 (extension): the BLOCKING and RETURN semantics of the low-level      *)
(* terminal I/O functions of term_image.utils, as documented:               *)
(*      read_tty(more, timeout, min, echo)   read_tty_all()   write_tty(d)  *)
(*                                                                         *)
(* This is the constant-free functional core: one terminal (input queue fed *)
(* by an arrival schedule, virtual clock, ECHO bit, output side) and the    *)
(* call in progress.  Step(s) is the small-step function; TtyIO.tla wraps   *)
(* it in named actions and states the laws, Trace_TtyIO.tla runs it next to *)
(* recorded histories of the real functions.                                *)
(*                                                                         *)
(* NOT modelled here (owned by other modules): what a terminal answers to   *)
(* a query and how replies are parsed (Tty.tla / C12), exact restoration of *)
(* the whole attribute word under faults (MC_TtyFault / C13), the tty lock  *)
(* (TtyLock.tla / C14).  Here the ECHO bit is the only attribute.           *)
(*                                                                         *)
(* Bytes are integers, byte strings sequences.  Time is counted in ticks.   *)
(* Timeout encoding: TNone = the Python value None (documented: "all        *)
(* available input is read without blocking"), TInf = any negative timeout  *)
(* (documented: infinite), t >= 0 ticks.                                    *)
(*                                                                         *)
(* Assumption of the virtual terminal (as in C12): system calls take no     *)
(* time; time passes only while a caller is blocked (or between calls).     *)
(***************************************************************************)
EXTENDS Integers, Sequences, FiniteSets, TLC

Min2(a, b) == IF a <= b THEN a ELSE b
Max2(a, b) == IF a >= b THEN a ELSE b

TNone == 0 - 1
TInf == 0 - 2

RECURSIVE Cat(_)
Cat(ss) == IF ss = <<>> THEN <<>> ELSE Head(ss) \o Cat(Tail(ss))

IsPrefix(p, q) == Len(p) <= Len(q) /\ SubSeq(q, 1, Len(p)) = p
Drop(q, n) == SubSeq(q, n + 1, Len(q))
Take(q, n) == SubSeq(q, 1, Min2(n, Len(q)))
Rep(n, x) == [i \in 1..n |-> x]

(***************************************************************************)
(* Operations.  One uniform record:                                         *)
(*   op   "read" | "readall" | "write" | "idle"                             *)
(*   min, tmo, echo        the parameters of read_tty                       *)
(*   mk   the `more` predicate: "default" (not given: library default,      *)
(*        always True), "always", "never", "count" (True while fewer than   *)
(*        mn bytes), "term" (True until the last byte is one of mt)         *)
(*   data, plan            write_tty(data); plan[i] = how many bytes the    *)
(*        device accepts at the i-th low-level write of this call (partial  *)
(*        writes; beyond the plan everything is accepted)                   *)
(***************************************************************************)
NoOp == [op |-> "none", min |-> 0, tmo |-> TNone, echo |-> FALSE, mk |-> "default", mn |-> 0,
         mt |-> <<>>, data |-> <<>>, plan |-> <<>>]
ReadOp(min, tmo, echo, mk, mn, mt) ==
  [NoOp EXCEPT !.op = "read", !.min = min, !.tmo = tmo, !.echo = echo, !.mk = mk, !.mn = mn, !.mt = mt]
\* read_tty_all() is documented as "reads all available input without blocking": read_tty()
ReadAllOp == [NoOp EXCEPT !.op = "readall"]
WriteOp(data, plan) == [NoOp EXCEPT !.op = "write", !.data = data, !.plan = plan]
IdleOp == [NoOp EXCEPT !.op = "idle"]

Last(q) == q[Len(q)]
InSeq(x, q) == \E i \in 1..Len(q) : q[i] = x

\* the value of more(buffer)
More(o, buf) ==
  CASE o.mk = "never" -> FALSE
    [] o.mk = "count" -> Len(buf) < o.mn
    [] o.mk = "term" -> buf = <<>> \/ ~InSeq(Last(buf), o.mt)
    [] OTHER -> TRUE
\* a caller-supplied predicate is observable (its calls and arguments), the library default is not
Observable(o) == o.mk # "default"

(***************************************************************************)
(* State.                                                                   *)
(*  world   tty (is there an active terminal), techo (the terminal's own    *)
(*          ECHO setting, as the caller left it), sched (the arrival        *)
(*          schedule of this behaviour, kept for identification only)       *)
(*  input   now, inq (unread input), pend (future arrivals <<[at, data]>>,  *)
(*          strictly increasing times), echo (the ECHO bit now),            *)
(*          elog (one flag per arrived byte: was it echoed)                 *)
(*  output  wbuf (accepted by the device, not yet transmitted), wire        *)
(*          (transmitted)                                                   *)
(*  call    pc, op, t0 (start), tm (time the `min` phase ended), buf,       *)
(*          cl (observable consultations of `more`: the buffer length each  *)
(*          one saw), wrem / pi (write: rest of the data, plan index)       *)
(*  history arrived, taken (bytes removed from the queue by reads), rets    *)
(*          (bytes returned to callers), wsent (data of every write_tty     *)
(*          call so far), all in order                                      *)
(***************************************************************************)
ReaderPcs == {"drain", "minwait", "check", "wait", "ret"}
WriterPcs == {"w_accept", "w_drain", "w_ret"}
Pcs == {"idle", "hung"} \cup ReaderPcs \cup WriterPcs

InitState(tty, techo, pend, sched) ==
  [tty |-> tty, techo |-> techo, sched |-> sched,
   now |-> 0, inq |-> <<>>, pend |-> pend, echo |-> techo, elog |-> <<>>,
   wbuf |-> <<>>, wire |-> <<>>,
   pc |-> "idle", op |-> NoOp, t0 |-> 0, tm |-> 0, buf |-> <<>>, cl |-> <<>>,
   wrem |-> <<>>, pi |-> 1,
   arrived |-> <<>>, taken |-> <<>>, rets |-> <<>>, wsent |-> <<>>]

Timed(s) == s.op.tmo >= 0
Deadline(s) == s.t0 + s.op.tmo
TimeIsUp(s) == Timed(s) /\ s.now >= Deadline(s)

\* the next scheduled chunk arrives: the clock moves to its time, it joins the queue, and the
\* terminal echoes it iff the ECHO bit is set at that moment
DeliverNext(s) ==
  LET c == Head(s.pend) IN
  [s EXCEPT !.now = c.at, !.inq = @ \o c.data, !.pend = Tail(@), !.arrived = @ \o c.data,
            !.elog = @ \o Rep(Len(c.data), s.echo)]

(***************************************************************************)
(* Begin(s, o): the call starts (no time passes).                           *)
(*  - read / readall: the ECHO bit becomes what `echo` asks for;            *)
(*      timeout None  -> drain ("all available input ... without blocking"; *)
(*                       `min` and `more` play no part),                    *)
(*      min > 0       -> wait for `min` bytes first, whatever the timeout,  *)
(*      otherwise     -> the more/timeout loop.                             *)
(***************************************************************************)
IsRead(o) == o.op \in {"read", "readall"}
Begin(s, o) ==
  IF IsRead(o) THEN
    [s EXCEPT !.op = o, !.t0 = s.now, !.tm = s.now, !.buf = <<>>, !.cl = <<>>, !.echo = o.echo,
              !.pc = IF o.tmo = TNone THEN "drain" ELSE IF o.min > 0 THEN "minwait" ELSE "check"]
  ELSE
    [s EXCEPT !.op = o, !.t0 = s.now, !.tm = s.now, !.wrem = o.data, !.pi = 1, !.wsent = @ \o o.data,
              !.pc = "w_accept"]

(***************************************************************************)
(* Kind(s): the named action the call in progress takes next.               *)
(***************************************************************************)
Kind(s) ==
  CASE s.pc = "drain" -> "Drain"
    [] s.pc = "minwait" ->
         IF Len(s.inq) >= s.op.min THEN "ReadMin"
         ELSE IF s.pend # <<>> THEN "Arrive" ELSE "Blocked"
    [] s.pc = "check" ->
         IF TimeIsUp(s) THEN (IF s.op.tmo = 0 THEN "ZeroTimeout" ELSE "TimeUp") ELSE "Consult"
    [] s.pc = "wait" ->
         IF s.inq # <<>> THEN "ReadByte"
         ELSE IF s.pend # <<>> /\ (~Timed(s) \/ Head(s.pend).at <= Deadline(s)) THEN "Arrive"
         ELSE IF Timed(s) THEN "Expire" ELSE "Blocked"
    [] s.pc = "ret" -> "Return"
    [] s.pc = "w_accept" -> "Accept"
    [] s.pc = "w_drain" -> "Transmit"
    [] s.pc = "w_ret" -> "WriteReturn"
    [] OTHER -> "none"

DrainPiece == 100

AcceptCount(s) ==
  IF s.pi <= Len(s.op.plan) THEN Min2(s.op.plan[s.pi], Len(s.wrem)) ELSE Len(s.wrem)

(***************************************************************************)
(* Step(s): one step of the call in progress (deterministic: the schedule   *)
(* and the partial-write plan are part of the state).                       *)
(*                                                                         *)
(*  Drain       everything queued is taken, at once (in pieces of at most   *)
(*              DrainPiece bytes: only the observation granularity).        *)
(*  ReadMin     `min` bytes are queued: they are taken together; `more` is  *)
(*              not asked about shorter buffers.                            *)
(*  Arrive      the caller is blocked and the next chunk arrives (in the    *)
(*              more/timeout loop: only if it comes no later than the       *)
(*              deadline).  A chunk arriving exactly AT the deadline still  *)
(*              wakes the reader, which takes one byte of it: documented    *)
(*              "until timeout is up" leaves the boundary open - named      *)
(*              deviation DeadlineRace (see notes), harmless.               *)
(*  Consult     time is not up: more(buffer) decides between waiting and    *)
(*              returning.                                                  *)
(*  TimeUp      the timeout is used up: return without asking `more`.       *)
(*  ZeroTimeout the same for timeout = 0: nothing beyond `min` bytes is     *)
(*              read even if input is queued (the documented way to poll is *)
(*              timeout=None) - named branch, see notes.                    *)
(*  ReadByte    one more byte.                                              *)
(*  Expire      nothing arrives before the deadline: the clock moves there. *)
(*  Blocked     nothing will ever arrive and no deadline applies: the call  *)
(*              never returns.                                              *)
(*  Return      the buffer is handed to the caller, ECHO is what it was.    *)
(*  Accept      the device accepts (part of) the rest of the data.          *)
(*  Transmit    "waits until complete transmission".                        *)
(***************************************************************************)
Step(s) ==
  LET k == Kind(s) IN
  CASE k = "Drain" ->
         [s EXCEPT !.buf = @ \o Take(s.inq, DrainPiece), !.taken = @ \o Take(s.inq, DrainPiece),
                   !.inq = Drop(s.inq, DrainPiece),
                   !.pc = IF Len(s.inq) <= DrainPiece THEN "ret" ELSE "drain"]
    [] k = "ReadMin" ->
         [s EXCEPT !.buf = Take(s.inq, s.op.min), !.taken = @ \o Take(s.inq, s.op.min),
                   !.inq = Drop(s.inq, s.op.min), !.tm = s.now, !.pc = "check"]
    [] k = "Arrive" -> DeliverNext(s)
    [] k = "Blocked" -> [s EXCEPT !.pc = "hung"]
    [] k \in {"TimeUp", "ZeroTimeout"} -> [s EXCEPT !.pc = "ret"]
    [] k = "Consult" ->
         [s EXCEPT !.cl = IF Observable(s.op) THEN Append(@, Len(s.buf)) ELSE @,
                   !.pc = IF More(s.op, s.buf) THEN "wait" ELSE "ret"]
    [] k = "ReadByte" ->
         [s EXCEPT !.buf = Append(@, Head(s.inq)), !.taken = Append(@, Head(s.inq)), !.inq = Tail(@),
                   !.pc = "check"]
    [] k = "Expire" -> [s EXCEPT !.now = Deadline(s), !.pc = "check"]
    [] k = "Return" ->
         [s EXCEPT !.pc = "idle", !.echo = s.techo, !.rets = @ \o s.buf, !.buf = <<>>, !.op = NoOp,
                   !.cl = <<>>, !.t0 = 0, !.tm = 0]
    [] k = "Accept" ->
         LET n == AcceptCount(s) IN
         [s EXCEPT !.wbuf = @ \o Take(s.wrem, n), !.wrem = Drop(@, n), !.pi = @ + 1,
                   !.pc = IF Drop(s.wrem, n) = <<>> THEN "w_drain" ELSE "w_accept"]
    [] k = "Transmit" -> [s EXCEPT !.wire = @ \o s.wbuf, !.wbuf = <<>>, !.pc = "w_ret"]
    [] k = "WriteReturn" -> [s EXCEPT !.pc = "idle", !.op = NoOp, !.pi = 1, !.t0 = 0, !.tm = 0]
    [] OTHER -> s

\* the observable projection compared with the real terminal after every step
Obs(s) == [now |-> s.now, q |-> s.inq, echo |-> s.echo, elog |-> s.elog, taken |-> s.taken,
           wbuf |-> s.wbuf, wire |-> s.wire]
\* While a call is in progress only this much of it can be observed from outside: the clock, the
\* ECHO bit, what has arrived (and whether it was echoed) and the output side - not how the arrived
\* bytes are split between the caller's buffer and the queue (that shows when the call returns)
Coarse(o) == [now |-> o.now, echo |-> o.echo, elog |-> o.elog, arrived |-> o.taken \o o.q,
              wbuf |-> o.wbuf, wire |-> o.wire]
\* ... split into its history-free part and what one step appends to the histories (the edge
\* dump identifies states up to their history)
ObsNow(s) == [now |-> s.now, q |-> s.inq, echo |-> s.echo, wbuf |-> s.wbuf]
Delta(s0, s1) == [ne |-> Drop(s1.elog, Len(s0.elog)), nt |-> Drop(s1.taken, Len(s0.taken)),
                  nw |-> Drop(s1.wire, Len(s0.wire))]

(***************************************************************************)
(* What a step reports (`out`): the action, the call it belongs to and - at *)
(* Return / WriteReturn / Blocked / NoTerminal - what the caller sees.      *)
(***************************************************************************)
Out(a, o, res, none, hung, s0, s1) ==
  [a |-> a, op |-> o, res |-> res, none |-> none, hung |-> hung, t0 |-> s0.t0, tm |-> s0.tm, t |-> s1.now,
   cl |-> s0.cl, obs |-> ObsNow(s1), d |-> Delta(s0, s1)]
NoOut(s) == Out("Init", NoOp, <<>>, TRUE, FALSE, s, s)

StepOut(s, s1) ==
  LET k == Kind(s) IN
  IF k = "Return" THEN Out(k, s.op, s.buf, FALSE, FALSE, s, s1)
  ELSE IF k = "Blocked" THEN Out(k, s.op, <<>>, TRUE, TRUE, s, s1)
  ELSE Out(k, s.op, <<>>, TRUE, FALSE, s, s1)

(***************************************************************************)
(* A whole call, for the trace monitor: the states from Begin to the end.   *)
(***************************************************************************)
RECURSIVE RunFrom(_, _)
RunFrom(s, fuel) ==
  IF s.pc \in {"idle", "hung"} \/ fuel = 0 THEN <<s>> ELSE <<s>> \o RunFrom(Step(s), fuel - 1)
RunCall(s, o, fuel) == RunFrom(Begin(s, o), fuel)

\* consecutive duplicates removed (the real terminal is observed modulo stuttering)
RECURSIVE Dedup(_)
Dedup(q) ==
  IF Len(q) <= 1 THEN q
  ELSE IF q[1] = q[2] THEN Dedup(Tail(q)) ELSE <<q[1]>> \o Dedup(Tail(q))

\* everything that has arrived by time t according to a schedule <<[at, data]>>
ArrivedBy(sched, t) == Cat([i \in 1..Len(SelectSeq(sched, LAMBDA c : c.at <= t)) |->
                             SelectSeq(sched, LAMBDA c : c.at <= t)[i].data])
=============================================================================
