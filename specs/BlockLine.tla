------------------------------ MODULE BlockLine ------------------------------
(***************************************************************************)
(* C02: BlockImage._render_image's run-length loop as a step machine.      *)
(* (/repo/src/term_image/image/block.py, transcribed clause by clause.)    *)
(*                                                                         *)
(* The loop reads, per character cell, the upper and the lower pixel       *)
(* (px1, px2) with their bi-level alpha (a1, a2 in {0, 255}) exactly as    *)
(* _get_render_data hands them over, keeps the "cluster" (colour / alpha   *)
(* of the run being accumulated and its length n) and calls                *)
(* update_buffer() - here Update - when the cell cannot join the run.      *)
(*                                                                         *)
(*   Input cell         chosen per step:  \E cell \in Cells(par)  (free    *)
(*                      mode; the state space saturates and therefore      *)
(*                      covers EVERY line length), or dictated by the      *)
(*                      concrete image `img` (dump mode, spec -> code).    *)
(*   Update(par, s)     SGR0? FG? BG? glyph^n, the tokens update_buffer    *)
(*                      writes (token records of harness/lexer.py).        *)
(*   m                  the machine, one record stepped by the pure        *)
(*                      operators Scan (one loop iteration) and End (rest  *)
(*                      of the line); named actions per flush kind only    *)
(*                      select which case of Scan is taken (coverage).     *)
(*   m.T                the TERMINAL-side state after the emitted tokens:  *)
(*                      the tokens are folded through Terminal!Apply, so   *)
(*                      "what a flushed run paints" is read from the       *)
(*                      terminal's cell grid, not from the loop's          *)
(*                      variables.  After every step the painted cells     *)
(*                      are cleared and the cursor is put back to (0, 0)   *)
(*                      (the SGR state carries over) to keep T finite.     *)
(*                                                                         *)
(* Displayed value of a pixel = its RGB if opaque, else DefaultColor (the  *)
(* terminal's own background); see BlockSem.                               *)
(*                                                                         *)
(* Properties (invariants):                                                *)
(*   RunUniform    all cells accumulated into the current run have the     *)
(*                 same displayed value                                     *)
(*   Painted       what a flush paints = the displayed value of every cell *)
(*                 of the run (BlockSem!CellShows incl. the kitty          *)
(*                 deviation), as many cells as the run holds, contiguous  *)
(*   Conservation  cells painted so far + n = cells scanned                *)
(*   LineShape     a line paints exactly its cells; with split-cells       *)
(*                 every cell but the last of the line is followed by NUL, *)
(*                 and the seek(-1) at the end of the line removes a NUL   *)
(*   SgrResetAtLineEnd, TerminalSane                                        *)
(*                                                                         *)
(* Variant # "code" are seeded SPEC mutations (self-test: the invariants   *)
(* must reject each of them; see harness/drivers/c02.py).                  *)
(***************************************************************************)
EXTENDS BlockSem, Json, IOUtils

CONSTANTS
  Colours,      \* RGB triples of opaque pixels
  TColours,     \* RGB triples carried by transparent pixels (never displayed)
  AlphaModes,   \* subset of BOOLEAN: is the pixel data RGBA (float threshold path)?
  KittyModes,   \* subset of BOOLEAN: does the terminal identify as kitty?
  SplitModes,   \* subset of BOOLEAN: split_cells
  TermBgs,      \* terminal background colours; <<>> = unknown
  W,            \* dump mode: every 1-line image of width 1..W is enumerated
  Variant       \* "code" = faithful transcription; anything else = seeded spec mutation

VARIABLES
  par,      \* [alpha, kitty, split, tbg]
  img,      \* <<>> (free mode) or the concrete image: Seq(lines) of Seq(cells)
  m,        \* the machine (record, see M0)
  acc       \* dump mode: all tokens emitted for the image

vars == <<par, img, m, acc>>

(* ---- tokens (same records as harness/lexer.py) ------------------------- *)
Tok(k, n, cp, g, p, x) == [k |-> k, n |-> n, m |-> cp, g |-> g, p |-> p, x |-> x]
Sgr0 == Tok("sgr", -1, -1, "", <<0>>, 0)
Fg(c) == Tok("sgr", -1, -1, "", <<38, 2, c[1], c[2], c[3]>>, 0)
Bg(c) == Tok("sgr", -1, -1, "", <<48, 2, c[1], c[2], c[3]>>, 0)
Lf == Tok("lf", -1, -1, "", <<>>, 0)
Nul == Tok("nul", -1, -1, "", <<>>, 0)
GlyphCode(g) == CASE g = "up" -> 9600 [] g = "lo" -> 9604 [] OTHER -> 32
PrintTok(g, n) == Tok("print", n, GlyphCode(g), g, <<>>, 0)

RECURSIVE Rep(_, _)
Rep(q, n) == IF n <= 0 THEN <<>> ELSE q \o Rep(q, n - 1)

\* `glyph * n` where glyph = char or char + "\0" (split_cells)
Glyphs(split, g, n) ==
  IF n <= 0 THEN <<>>
  ELSE IF split THEN Rep(<<PrintTok(g, 1), Nul>>, n) ELSE <<PrintTok(g, n)>>

(* ---- inputs ------------------------------------------------------------ *)
Params == [alpha : AlphaModes, kitty : KittyModes, split : SplitModes, tbg : TermBgs]

Pixels(p) == [c : Colours, a : {255}] \cup (IF p.alpha THEN [c : TColours, a : {0}] ELSE {})
Cells(p) == [u : Pixels(p), l : Pixels(p)]

DV(px) == IF px.a = 0 THEN DefaultColor ELSE px.c      \* displayed value of a pixel
CellVal(cell) == <<DV(cell.u), DV(cell.l)>>

(* ---- functional core: the loop body ------------------------------------ *)

\* update_buffer()
FlushKind(p, q) ==
  IF p.alpha /\ q.a1 = 0 /\ q.a2 = 0 THEN "tt"
  ELSE IF p.alpha /\ q.a1 = 0 THEN "to"          \* up is transparent
  ELSE IF p.alpha /\ q.a2 = 0 THEN "ot"          \* down is transparent
  ELSE LET k == IF q.c1 = q.c2 THEN "same" ELSE "diff" IN
       IF p.kitty /\ q.c2 = p.tbg THEN k \o "+k" ELSE k

KittyActive(p, q) ==
  IF Variant = "kitty_always" THEN q.c2 = p.tbg ELSE p.kitty /\ q.c2 = p.tbg

Update(p, q) ==
  IF p.alpha /\ q.a1 = 0 /\ q.a2 = 0
    THEN <<Sgr0>> \o Glyphs(p.split, "sp", q.n)
  ELSE IF p.alpha /\ q.a1 = 0
    THEN <<Sgr0, Fg(q.c2)>> \o Glyphs(p.split, "lo", q.n)
  ELSE IF p.alpha /\ q.a2 = 0
    THEN <<Sgr0, Fg(q.c1)>> \o Glyphs(p.split, "up", q.n)
  ELSE
    LET bgc == IF KittyActive(p, q) THEN KittyAdjust(q.c2) ELSE q.c2 IN
    IF q.c1 = q.c2
      THEN (IF Variant = "blank_without_bg" THEN <<>> ELSE <<Bg(bgc)>>)
           \o Glyphs(p.split, "sp", q.n)
      ELSE <<Bg(bgc), Fg(q.c1)>> \o Glyphs(p.split, "up", q.n)

\* the `if` in the inner loop, conjunct by conjunct
MustFlush(p, q, cell) ==
  LET a1 == cell.u.a  a2 == cell.l.a  px1 == cell.u.c  px2 == cell.l.c IN
  /\ ~(p.alpha /\ a1 = q.a1 /\ q.a1 = 0 /\ 0 = q.a2 /\ q.a2 = a2)
  /\ \/ px1 # q.c1
     \/ px2 # q.c2
     \/ /\ p.alpha
        /\ \/ Variant # "drop_o2t" /\ q.a1 # a1 /\ a1 = 0   \* a_cluster1 != a1 == 0
           \/ Variant # "drop_o2t" /\ q.a2 # a2 /\ a2 = 0   \* a_cluster2 != a2 == 0
           \/ 0 = q.a1 /\ q.a1 # a1                         \* 0 == a_cluster1 != a1
           \/ Variant # "drop_t2o" /\ 0 = q.a2 /\ q.a2 # a2 \* 0 == a_cluster2 != a2

Restart(p, q, cell) ==
  [c1 |-> cell.u.c, c2 |-> cell.l.c,
   a1 |-> IF p.alpha THEN cell.u.a ELSE q.a1,
   a2 |-> IF p.alpha THEN cell.l.a ELSE q.a2,
   n |-> (IF Variant = "keep_n" THEN q.n ELSE 0) + 1]

\* the cluster initialisation at the start of a line: (rgb[x], rgb[x + width]), (a[x], a[x + width])
LineStart(cell) == [c1 |-> cell.u.c, c2 |-> cell.l.c, a1 |-> cell.u.a, a2 |-> cell.l.a, n |-> 0]

(* ---- terminal side ------------------------------------------------------ *)
BigCols == 4096

RECURSIVE ApplyAll(_, _, _)
ApplyAll(Tm, toks, i) == IF i > Len(toks) THEN Tm ELSE ApplyAll(Apply(Tm, toks[i], <<>>), toks, i + 1)

Normalise(Tm) ==
  [Tm EXCEPT !.cells = <<>>, !.c = 0, !.r = 0, !.top = 0, !.pw = FALSE, !.ntok = 0, !.lfs = 0,
             !.scrolls = 0]

NulCount(toks) == Cardinality({i \in DOMAIN toks : toks[i].k = "nul"})

NoFl == [on |-> FALSE, ok |-> TRUE, contiguous |-> TRUE, nonempty |-> TRUE, dk |-> 0,
         eol |-> FALSE, dprinted |-> 0, dnuls |-> 0, clobber |-> FALSE]

\* judgement of a flush: T1 = terminal after the flush's tokens (cursor was at (0,0), no cells)
FlushRec(p, T1, vals, n) ==
  LET painted == DOMAIN T1.cells
      k == Cardinality(painted)
  IN [NoFl EXCEPT
        !.on = TRUE,
        !.ok = \A pos \in painted : \A v \in vals : CellShows(p.kitty, p.tbg, T1.cells[pos], v),
        !.contiguous = (painted = RowSpan(0, 0, k - 1)),
        !.nonempty = (vals # {}),
        !.dk = k - n]

(* ---- the machine: a record, stepped by pure operators ---------------------- *)
S0 == [c1 |-> <<>>, c2 |-> <<>>, a1 |-> 255, a2 |-> 255, n |-> 0]   \* no line in progress

M0 ==
  [phase |-> "idle",   \* "idle" (between lines) | "line" | "done"
   ln |-> 1,           \* line number (dump mode)
   col |-> 0,          \* cells scanned in this line
   s |-> S0,           \* loop variables [c1, c2, a1, a2, n] = cluster1/2, a_cluster1/2, n
   runvals |-> {},     \* ghost: displayed values of the cells accumulated into the run
   T |-> NewTerminal(BigCols, 2, 0, 0),   \* terminal record (Terminal.tla)
   out |-> <<>>,       \* tokens emitted by the last step
   fl |-> NoFl,        \* ghost: judgement of the last step's flush / end of line
   pr |-> 0, nu |-> 0] \* ghost: cells painted / NULs emitted so far in this line

\* one iteration of the inner loop on `cell`; start = first cell of a line (cluster initialisation)
Scan(p, mm, cell, start) ==
  LET q == IF start THEN LineStart(cell) ELSE mm.s
      rv == IF start THEN {} ELSE mm.runvals
  IN
  IF MustFlush(p, q, cell)
    THEN LET toks == Update(p, q)
             T1 == ApplyAll(mm.T, toks, 1)
             f == FlushRec(p, T1, rv, q.n)
         IN [mm EXCEPT !.phase = "line", !.col = @ + 1,
                       !.s = Restart(p, q, cell),
                       !.runvals = {CellVal(cell)},
                       !.fl = f,
                       !.T = Normalise(T1),
                       !.out = toks,
                       !.pr = @ + f.dk + q.n,
                       !.nu = @ + NulCount(toks)]
    ELSE [mm EXCEPT !.phase = "line", !.col = @ + 1,
                    !.s = [q EXCEPT !.n = @ + 1],
                    !.runvals = rv \cup {CellVal(cell)},
                    !.fl = NoFl,
                    !.out = <<>>]

\* update_buffer() for the rest of the line, seek(-1) with split_cells, end_of_line
\* (`if row_no < height`) or the final SGR_DEFAULT
End(p, mm, last, bump) ==
  LET toks0 == Update(p, mm.s)
      clob == p.split /\ (toks0 = <<>> \/ toks0[Len(toks0)].k # "nul")
      toks1 == IF p.split /\ toks0 # <<>> THEN SubSeq(toks0, 1, Len(toks0) - 1) ELSE toks0
      T1 == ApplyAll(mm.T, toks1, 1)
      f == FlushRec(p, T1, mm.runvals, mm.s.n)
      trailer == IF last THEN <<Sgr0>> ELSE <<Sgr0, Lf>>
      printed == mm.pr + f.dk + mm.s.n
      nuls == mm.nu + NulCount(toks1)
  IN [mm EXCEPT
        !.phase = IF last THEN "done" ELSE "idle",
        !.ln = IF bump THEN @ + 1 ELSE @,
        !.col = 0, !.pr = 0, !.nu = 0, !.runvals = {}, !.s = S0,
        !.fl = [f EXCEPT !.eol = TRUE, !.dprinted = printed - mm.col,
                         !.dnuls = nuls - (IF p.split THEN mm.col - 1 ELSE 0),
                         !.clobber = clob],
        !.T = Normalise(ApplyAll(T1, trailer, 1)),
        !.out = toks1 \o trailer]

(* ---- actions ------------------------------------------------------------ *)
Free == img = <<>>
CellChoice == IF Free THEN Cells(par) ELSE {img[m.ln][m.col + 1]}

Do(mnew) ==
  /\ m' = mnew
  /\ acc' = IF Free THEN acc ELSE acc \o mnew.out
  /\ UNCHANGED <<par, img>>

StartLine ==
  /\ m.phase = "idle"
  /\ \E cell \in CellChoice : Do(Scan(par, m, cell, TRUE))

ScanOn(flush, kind) ==
  /\ IF Free THEN TRUE ELSE m.col < Len(img[m.ln])
  /\ \E cell \in CellChoice :
       /\ MustFlush(par, m.s, cell) = flush
       /\ flush => FlushKind(par, m.s) = kind
       /\ Do(Scan(par, m, cell, FALSE))

ScanExtend == m.phase = "line" /\ ScanOn(FALSE, "")
ScanFlushTT == m.phase = "line" /\ ScanOn(TRUE, "tt")
ScanFlushTO == m.phase = "line" /\ ScanOn(TRUE, "to")
ScanFlushOT == m.phase = "line" /\ ScanOn(TRUE, "ot")
ScanFlushSame == m.phase = "line" /\ ScanOn(TRUE, "same")
ScanFlushDiff == m.phase = "line" /\ ScanOn(TRUE, "diff")
ScanFlushSameK == m.phase = "line" /\ ScanOn(TRUE, "same+k")
ScanFlushDiffK == m.phase = "line" /\ ScanOn(TRUE, "diff+k")

EndLine(last) ==
  /\ IF Free THEN TRUE ELSE (m.col = Len(img[m.ln]) /\ last = (m.ln = Len(img)))
  /\ Do(End(par, m, last, ~Free))

EndLineMore == m.phase = "line" /\ EndLine(FALSE)
EndLineLast == m.phase = "line" /\ EndLine(TRUE)

Next ==
  \/ StartLine \/ ScanExtend
  \/ ScanFlushTT \/ ScanFlushTO \/ ScanFlushOT
  \/ ScanFlushSame \/ ScanFlushDiff \/ ScanFlushSameK \/ ScanFlushDiffK
  \/ EndLineMore \/ EndLineLast

\* free mode: the input cell is chosen at every step
InitFree == par \in Params /\ img = <<>> /\ m = M0 /\ acc = <<>>

(* ---- dump mode: concrete images, the emitted tokens are printed ----------- *)
Extra == IF "C02_EXTRA" \in DOMAIN IOEnv THEN JsonDeserialize(IOEnv.C02_EXTRA) ELSE <<>>
\* an extra image arrives as Seq(lines) of Seq(<<ur,ug,ub,ua, lr,lg,lb,la>>)
Px(r, g, b, a) == [c |-> <<r, g, b>>, a |-> a]
UnpackCell(x) == [u |-> Px(x[1], x[2], x[3], x[4]), l |-> Px(x[5], x[6], x[7], x[8])]
UnpackImg(im) == [i \in DOMAIN im |-> [j \in DOMAIN im[i] |-> UnpackCell(im[i][j])]]
PackCell(c) == <<c.u.c[1], c.u.c[2], c.u.c[3], c.u.a, c.l.c[1], c.l.c[2], c.l.c[3], c.l.a>>
PackImg(im) == [i \in DOMAIN im |-> [j \in DOMAIN im[i] |-> PackCell(im[i][j])]]
PackTok(t) == <<t.k, t.n, t.m, t.g, t.p>>

Enumerated(p) == {<<line>> : line \in UNION {[1..w -> Cells(p)] : w \in 1..W}}

InitDump ==
  /\ \/ par \in Params /\ img \in Enumerated(par)
     \/ \E i \in DOMAIN Extra :
          /\ par = [alpha |-> Extra[i].alpha, kitty |-> Extra[i].kitty,
                    split |-> Extra[i].split, tbg |-> Extra[i].tbg]
          /\ img = UnpackImg(Extra[i].img)
  /\ m = M0 /\ acc = <<>>

DumpLine ==
  m.phase = "done" =>
    PrintT(<<"LINE", ToJson([alpha |-> par.alpha, kitty |-> par.kitty, split |-> par.split,
                             tbg |-> par.tbg, img |-> PackImg(img),
                             toks |-> [i \in DOMAIN acc |-> PackTok(acc[i])]])>>)

(* ---- properties ----------------------------------------------------------- *)
RunUniform == m.phase = "line" => Cardinality(m.runvals) = 1
Painted == m.fl.on => m.fl.nonempty /\ m.fl.ok /\ m.fl.contiguous /\ m.fl.dk = 0
Conservation == m.phase = "line" => m.pr + m.s.n = m.col
LineShape == m.fl.eol => m.fl.dprinted = 0 /\ m.fl.dnuls = 0 /\ ~m.fl.clobber
SgrResetAtLineEnd == m.phase \in {"idle", "done"} => SgrDefault(m.T)
TerminalSane == m.T.err = "" /\ m.T.wraps = 0 /\ m.T.cells = <<>>

(* The column counter and the absolute run length are hidden: transitions and  *)
(* properties depend on them only through the differences kept here, so the    *)
(* quotient is a bisimulation and the free-mode state space is finite.         *)
View ==
  <<par, m.phase, m.s.c1, m.s.c2, m.s.a1, m.s.a2, (m.pr + m.s.n) - m.col,
    IF par.split THEN m.nu - m.pr ELSE m.nu, m.runvals,
    m.T.fg, m.T.bg, m.T.attrs, m.T.err, m.T.wraps, m.fl>>
=============================================================================
