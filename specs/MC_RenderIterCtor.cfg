SPECIFICATION Spec
INVARIANT IndefiniteSane
INVARIANT FitsIrrelevant
INVARIANT OwnershipIrrelevant
CHECK_DEADLOCK FALSE
