SPECIFICATION Spec
CONSTANTS
  N = 3
  MaxDepth = 9
  SpecSet = {"s1", "s2"}
  SizeSet = {"A", "dyn"}
  TermSet = {1, 2}
  KindSet = {"path", "pil", "url"}
  PeerVars = {"same", "other"}
  FaultSteps = {"open", "seek", "convert", "resize", "composite", "encode"}
VIEW View
CONSTRAINT Bound
INVARIANT TypeOK
INVARIANT NoLeakAtQuiescence
INVARIANT CallerImageNeverClosed
INVARIANT TempFileIffUrlImageOpen
INVARIANT CacheInvisible
INVARIANT FramesInOrderOrSeekTarget
INVARIANT TellTracksLastYield
INVARIANT ExactlyRepeatPasses
PROPERTY SizeNeverChangedByRender
PROPERTY AnimatedDrawKeepsFrame
PROPERTY RejectedLeavesStateAlone
PROPERTY SeekKeepsRepeatCount
PROPERTY ImagesIndependent
CHECK_DEADLOCK FALSE
