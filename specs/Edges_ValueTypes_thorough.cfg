SPECIFICATION Spec
CONSTANTS
  N = 2
  ScratchMax = 1
  Overwrite = FALSE
  ProbeAll = TRUE
  Fams = {"pad", "color"}
  Subs = TRUE
  AlignedSeeds <- Q_AlignedSeeds
  AlignedDefaultSeeds <- Q_AlignedDefaultSeeds
  ExactSeeds <- Q_ExactSeeds
  Terms <- TermsAll
  RSs <- RSsAll
  RebuildInts <- Q_RebuildInts
  Fills <- E_Fills
  SizeSeeds <- Q_SizeSeeds
  SizeReplace <- Q_SizeReplace
  ColorSeeds <- Q_ColorSeeds
  RgbSeeds <- Q_RgbSeeds
  ChanReplace <- Q_ChanReplace
  StrSeeds <- E_StrSeeds
VIEW View
ACTION_CONSTRAINT Dump
INVARIANT InitDump
CHECK_DEADLOCK FALSE
