------------------------------ MODULE LockOrder ------------------------------
(***************************************************************************)
(* C14: no schedule of the public entry points dead-locks on the library's  *)
(* own locks (terminal lock, cell-size lock, the locks of the memoized      *)
(* functions) - "concurrent queries each receive exactly their own reply,   *)
(* none is lost" presupposes that the query returns.                        *)
(*                                                                         *)
(* The PROGRAMS are not written by hand: harness/c14_lockorder_worker.py    *)
(* records, from the real code, the sequence of acquire / release           *)
(* operations every entry point performs on the library's re-entrant locks  *)
(* (lock identity = the lock object), in a stated cache state (cold /       *)
(* warm).  Nested re-acquisitions by the owner are dropped (they never      *)
(* wait), so a program acquires a lock only when it does not hold it.       *)
(* A COMBINATION is a tuple of programs run in parallel, one thread each.   *)
(*                                                                         *)
(* Law (what the driver submits as combinations): with every memoized fact  *)
(* that some entry point reads while holding the terminal lock already      *)
(* warm, every pair (thorough: triple) of entry points is dead-lock free.   *)
(* The same fact cold on both sides (a reader under the terminal lock and a *)
(* first computation of that very fact) is outside the law and reported as  *)
(* an observation.                                                          *)
(***************************************************************************)
EXTENDS Integers, Sequences, FiniteSets, TLC, Json, IOUtils

Data == JsonDeserialize(IOEnv.TRACE_FILE)
Progs == Data.progs        \* <<[name, steps : Seq([op, l])], ...>>
Combos == Data.combos      \* <<<<i, j>>, ...>> indexes into Progs
Locks == 1..Data.nlocks

VARIABLES cid, pc, own
vars == <<cid, pc, own>>

Thr == 1..Len(Combos[cid])
Steps(k) == Progs[Combos[cid][k]].steps
Fin(k) == pc[k] > Len(Steps(k))
Cur(k) == Steps(k)[pc[k]]
Enabled(k) == ~Fin(k) /\ (Cur(k).op = "acq" => own[Cur(k).l] \in {0, k})

Init ==
  /\ cid \in 1..Len(Combos)
  /\ pc = [k \in 1..Len(Combos[cid]) |-> 1]
  /\ own = [l \in Locks |-> 0]

Do(k) ==
  /\ Enabled(k)
  /\ own' = [own EXCEPT ![Cur(k).l] = IF Cur(k).op = "acq" THEN k ELSE 0]
  /\ pc' = [pc EXCEPT ![k] = @ + 1]
  /\ UNCHANGED cid

Next == \E k \in Thr : Do(k)
Spec == Init /\ [][Next]_vars

\* every unfinished thread waits for a lock another thread holds
Deadlocked == (\E k \in Thr : ~Fin(k)) /\ (\A k \in Thr : ~Enabled(k))
AllFinished == \A k \in Thr : Fin(k)

Report ==
  /\ Deadlocked => PrintT(<<"DEADLOCK", ToJson([cid |-> cid, pc |-> pc,
                              waits |-> [k \in Thr |-> IF Fin(k) THEN 0 ELSE Cur(k).l]])>>)
  /\ AllFinished => PrintT(<<"FINISHED", ToJson([cid |-> cid])>>)
=============================================================================
