SPECIFICATION Spec
CONSTANTS
  Sizes <- S2
  Pixels <- P2
  Ratios <- R1
  XtModes = {"text"}
  IoPx = {TRUE}
  Ops = {"cell"}
  Faults = {}
  Variant = "code"
INVARIANT TypeOK
INVARIANT CellFresh
INVARIANT RatioFresh
INVARIANT FixedSnapshot
INVARIANT MemoFresh
INVARIANT FaultFresh
INVARIANT BodyOnce
VIEW View
CHECK_DEADLOCK FALSE
ACTION_CONSTRAINT Dump
