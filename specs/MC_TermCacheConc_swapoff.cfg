SPECIFICATION Spec
CONSTANTS
  Prog <- PSwapOff
  Env <- EnvIo
  Swap0 = TRUE
  Queries0 = TRUE
  Cache0 <- CacheOn
  Variant = "code"
INVARIANT QuiescentFresh
INVARIANT LockFree
VIEW View
CHECK_DEADLOCK FALSE
ACTION_CONSTRAINT Dump
