SPECIFICATION Spec
CONSTANTS
  MaxLevel = 6
  NTerm = 2
  NRatio = 2
  NoTies = TRUE
VIEW View
CONSTRAINT Bound
ACTION_CONSTRAINT Dump
INVARIANT DynamicFollows
INVARIANT SizeWellFormed
INVARIANT NoTieReachable
PROPERTY FixedUnchanged
PROPERTY SetStoresFixedInRel
PROPERTY RenderRestores
CHECK_DEADLOCK FALSE
