SPECIFICATION Spec
CONSTANTS
  Rich = TRUE
  ClsSet = {"SubKittyImage"}
VIEW View
ACTION_CONSTRAINT Dump
INVARIANT InitDump
INVARIANT StateDump
CHECK_DEADLOCK FALSE
