\* definite, 2 frames, no cache, every setting, both ownerships
SPECIFICATION Spec
CONSTANTS
  N = 2
  K = 0
  LoopsSet <- LoopsAll
  CacheSet = {FALSE}
  OwnSet = {"iter", "caller"}
  Sizes <- SizesTwo
  Durs <- DursAll
  ArgsSet = {"a0", "a1"}
  Pads <- PadsAll
  SeekOffs <- Offs2
  TW = 8
  TH = 6
  Terms <- TermsTwo
  MaxDepth = 5
CONSTRAINT Bound
VIEW View
ACTION_CONSTRAINT Dump
INVARIANT TypeOK
INVARIANT FinalizeOnce
INVARIANT FinalizeIffClosedAndOwned
PROPERTY SeekNoLoop
PROPERTY RejectedChangesNothing
PROPERTY SettingsOnlyBySetter
PROPERTY FrameMatchesSettings
PROPERTY ResizeAloneChangesNothing
PROPERTY NoRerender
PROPERTY ClosedIsTerminal
PROPERTY LoopCountdown
PROPERTY PendingSeekOnce
CHECK_DEADLOCK FALSE
