SPECIFICATION SpecDump
CONSTANTS
  Ident = "konsole"
  Style3 = "iterm2"
  Bits = 3
  Fams = {"P", "S", "O", "L", "F", "T", "I"}
  WithBad = FALSE
  WithInv = FALSE
  Dyn = FALSE
  WithDC = TRUE
  WithWinch = TRUE
CONSTANT RelFams <- RelFamsT
VIEW CoarseView
ACTION_CONSTRAINT DumpL
CHECK_DEADLOCK FALSE
