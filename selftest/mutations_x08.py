"""Seeded mutations for X08 (same record format as selftest/mutations_x03.py).

    /venv/bin/python -m selftest.mutations_x08 [id ...] [--thorough]     # runs ./check X08 on each mutant

Every mutant is applied to a scratch copy of /repo/src under /tmp (removed afterwards) and counts as
caught when the quick check exits 1 with at least one VIOLATION signature OTHER than the finding of the
unchanged tree (`write_tty:WriteComplete:data-lost`, see notes/X08.md).  So that this finding cannot
hide a missed mutant, every scratch copy first gets BASELINE_FIX (write_tty continues a partial
write); the id `baseline` runs the check on that copy alone and must exit 0.  If /repo has meanwhile
been repaired the BASELINE_FIX pattern is gone and is skipped.
"""

from __future__ import annotations

import os
import shutil
import subprocess
import sys
from pathlib import Path

VERIF = Path(__file__).resolve().parent.parent
KNOWN = "write_tty:WriteComplete:data-lost"

BASELINE_FIX = dict(
    file="utils.py",
    old="    os.write(_tty_fd, data)\n    try:\n        termios.tcdrain(_tty_fd)\n",
    new="    while data:\n        data = data[os.write(_tty_fd, data) :]\n    try:\n        termios.tcdrain(_tty_fd)\n",
)

READ_RESTORE = "            # logging.debug(duration)\n    finally:\n        termios.tcsetattr(_tty_fd, termios.TCSANOW, old_attr)\n"

MUTATIONS = {
    "baseline": dict(edits=[], expect_exit=0),
    # ---- leftover / nothing lost ---------------------------------------------------------------
    "x08-restore-flushes-queue": dict(
        # the attributes are restored with TCSAFLUSH: unread input is discarded at every return
        file="utils.py",
        old=READ_RESTORE,
        new=READ_RESTORE.replace("TCSANOW", "TCSAFLUSH"),
    ),
    "x08-read-two-bytes": dict(
        # reads past the point where more() says stop
        file="utils.py",
        old="                    input.extend(os.read(_tty_fd, 1))\n",
        new="                    input.extend(os.read(_tty_fd, 2))\n",
    ),
    "x08-drain-once": dict(
        # timeout=None reads one piece (100 bytes) instead of everything: needs > 100 queued bytes
        file="utils.py",
        old="            while select(r, w, x, 0.0)[0]:\n",
        new="            if select(r, w, x, 0.0)[0]:\n",
    ),
    # ---- timing --------------------------------------------------------------------------------
    "x08-select-full-timeout": dict(
        # every wait gets the whole timeout: the timeout bounds each read, not the total
        file="utils.py",
        old="None if timeout < 0 else timeout - duration)[0]:",
        new="None if timeout < 0 else timeout)[0]:",
    ),
    "x08-stale-duration": dict(
        # the elapsed time is not updated in the loop: a call with a timeout never gives up
        file="utils.py",
        old="                    input.extend(os.read(_tty_fd, 1))\n                duration = monotonic() - start\n",
        new="                    input.extend(os.read(_tty_fd, 1))\n",
    ),
    "x08-clock-starts-after-min": dict(
        # the timeout is counted from the end of the `min` phase instead of from the call
        file="utils.py",
        old="            start = monotonic()\n            if min > 0:\n",
        new="            if min > 0:\n",
        more=[dict(file="utils.py",
                   old="            duration = monotonic() - start\n            while (timeout < 0",
                   new="            start = monotonic()\n            duration = monotonic() - start\n            while (timeout < 0")],
    ),
    "x08-deadline-inclusive": dict(
        # `<=`: one more round at the deadline (timeout=0 now polls, a timed-out call reads one more byte)
        file="utils.py",
        old="            while (timeout < 0 or duration < timeout) and more(input):\n",
        new="            while (timeout < 0 or duration <= timeout) and more(input):\n",
    ),
    "x08-none-waits": dict(
        # timeout=None waits a little for input: no longer 'without blocking'
        file="utils.py",
        old="            while select(r, w, x, 0.0)[0]:\n",
        new="            while select(r, w, x, 0.0078125)[0]:\n",
    ),
    "x08-negative-timeout-is-zero": dict(
        # a negative timeout is no longer infinite
        file="utils.py",
        old="            while (timeout < 0 or duration < timeout) and more(input):\n",
        new="            while duration < timeout and more(input):\n",
    ),
    # ---- min -----------------------------------------------------------------------------------
    "x08-min-not-awaited": dict(
        # VMIN stays 0: the `min` read returns what is there
        file="utils.py",
        old="    new_attr[6][termios.VMIN] = 0 if timeout is None else min\n",
        new="    new_attr[6][termios.VMIN] = 0\n",
    ),
    "x08-min-applies-without-timeout": dict(
        # timeout=None honours `min` too (blocks): documented to read what is available only
        file="utils.py",
        old="        if timeout is None:\n            # VMIN=0 does not work as expected",
        new="        if timeout is None and min > 0:\n            input.extend(os.read(_tty_fd, min))\n"
            "        elif timeout is None:\n            # VMIN=0 does not work as expected",
    ),
    # ---- echo ----------------------------------------------------------------------------------
    "x08-echo-inverted": dict(
        file="utils.py",
        old="    if echo:\n        new_attr[3] |= termios.ECHO  # Enable input echo\n",
        new="    if not echo:\n        new_attr[3] |= termios.ECHO  # Enable input echo\n",
    ),
    "x08-echo-true-ignored": dict(
        # echo=True leaves the bit as found instead of setting it
        file="utils.py",
        old="    if echo:\n        new_attr[3] |= termios.ECHO  # Enable input echo\n",
        new="    if echo:\n        pass\n",
    ),
    "x08-echo-false-ignored": dict(
        # echo=False (default) leaves the bit as found instead of clearing it
        file="utils.py",
        old="    else:\n        new_attr[3] &= ~termios.ECHO  # Disable input echo\n    # Block until *min*",
        new="    else:\n        pass\n    # Block until *min*",
    ),
    # ---- more() ----------------------------------------------------------------------------------
    "x08-more-gets-copy": dict(
        # more() is documented to receive the bytearray
        file="utils.py",
        old="            while (timeout < 0 or duration < timeout) and more(input):\n",
        new="            while (timeout < 0 or duration < timeout) and more(bytes(input)):\n",
    ),
    "x08-more-consulted-first": dict(
        # more() is asked before the timeout test: one extra consultation, whose answer is ignored, when the
        # time is up.  NOT a regression (no documented law is broken): the check must tolerate it (exit 0)
        expect_exit=0,
        file="utils.py",
        old="            while (timeout < 0 or duration < timeout) and more(input):\n",
        new="            while more(input) and (timeout < 0 or duration < timeout):\n",
    ),
    # ---- read_tty_all / no terminal ---------------------------------------------------------------
    "x08-readall-with-zero-timeout": dict(
        # a 'harmless' refactoring: timeout=0 instead of None - returns nothing
        file="utils.py",
        old="    return read_tty()\n",
        new="    return read_tty(timeout=0.0)\n",
    ),
    "x08-readall-empty-without-terminal": dict(
        file="utils.py",
        old="@unix_tty_only\ndef read_tty_all() -> bytes | None:",
        new="def read_tty_all() -> bytes | None:",
        more=[dict(file="utils.py", old="    return read_tty()\n", new="    return read_tty() or b\"\"\n")],
    ),
    # ---- write_tty (relative to BASELINE_FIX) --------------------------------------------------------
    "x08-write-not-drained": dict(
        file="utils.py",
        old="    try:\n        termios.tcdrain(_tty_fd)\n    except termios.error:  # \"Permission denied\" on some platforms e.g Termux\n        pass\n",
        new="    pass\n",
    ),
    "x08-write-retries-once": dict(
        file="utils.py",
        old=BASELINE_FIX["new"],
        new="    n = os.write(_tty_fd, data)\n    if n < len(data):\n        os.write(_tty_fd, data[n:])\n"
            "    try:\n        termios.tcdrain(_tty_fd)\n",
        needs_baseline=True,
    ),
    "x08-write-resends-from-start": dict(
        # the retry sends the whole data again: duplicated bytes
        file="utils.py",
        old=BASELINE_FIX["new"],
        new="    while os.write(_tty_fd, data) < len(data):\n        pass\n    try:\n        termios.tcdrain(_tty_fd)\n",
        needs_baseline=True,
    ),
}


def apply(mid: str, m: dict) -> Path | None:
    root = Path(f"/tmp/verif-selftest-{mid}")
    shutil.rmtree(root, ignore_errors=True)
    root.mkdir(parents=True)
    subprocess.run(["rsync", "-a", "/repo/src", str(root) + "/"], check=True)
    edits = list(m["edits"]) if "edits" in m else [m] + list(m.get("more", []))
    f0 = root / "src" / "term_image" / BASELINE_FIX["file"]
    if f0.read_text().count(BASELINE_FIX["old"]) == 1:
        f0.write_text(f0.read_text().replace(BASELINE_FIX["old"], BASELINE_FIX["new"]))
    elif m.get("needs_baseline") and BASELINE_FIX["new"] not in f0.read_text():
        print(f"MUT {mid} X08 SKIPPED: write_tty no longer has the form BASELINE_FIX repairs", flush=True)
        shutil.rmtree(root, ignore_errors=True)
        return None
    for e in edits:
        f = root / "src" / "term_image" / e["file"]
        text = f.read_text()
        if text.count(e["old"]) != 1:
            shutil.rmtree(root, ignore_errors=True)
            raise SystemExit(f"{mid}: pattern occurs {text.count(e['old'])} times in {e['file']}")
        f.write_text(text.replace(e["old"], e["new"]))
    if subprocess.run([sys.executable, "-m", "compileall", "-q", str(root / "src" / "term_image")]).returncode:
        shutil.rmtree(root, ignore_errors=True)
        raise SystemExit(f"{mid}: the mutant does not compile")
    return root


def run(mid: str, tier: str = "quick") -> bool:
    m = MUTATIONS[mid]
    root = apply(mid, m)
    if root is None:
        return True
    try:
        env = dict(os.environ, VERIF_REPO=str(root))
        p = subprocess.run([str(VERIF / "check"), "X08", "--tier", tier], env=env, cwd=VERIF,
                           stdout=subprocess.PIPE, stderr=subprocess.STDOUT, text=True, timeout=3600)
    finally:
        shutil.rmtree(root, ignore_errors=True)
    sigs = sorted({l.strip()[len("signature: "):] for l in p.stdout.splitlines() if l.strip().startswith("signature:")})
    want = m.get("expect_exit", 1)
    # (mutants of the repaired write_tty legitimately re-create the finding's signature)
    own = [s for s in sigs if s != KNOWN or m.get("needs_baseline")]
    ok = p.returncode == want and (want == 0 or bool(own))
    status = ("as expected" if want == 0 else "caught") if ok else ("MACHINERY" if p.returncode == 2 else "MISSED")
    print(f"MUT {mid} X08 exit={p.returncode} {status} {sigs}", flush=True)
    if p.returncode == 2 or (want == 0 and not ok):
        print("\n".join(p.stdout.splitlines()[-15:]))
    return ok


def main() -> int:
    args = [a for a in sys.argv[1:] if not a.startswith("--")]
    tier = "thorough" if "--thorough" in sys.argv else "quick"
    ids = args or list(MUTATIONS)
    bad = [m for m in ids if not run(m, tier)]
    print(f"{len(ids) - len(bad)}/{len(ids)} as expected" + (f"; not: {bad}" if bad else ""))
    return 1 if bad else 0


if __name__ == "__main__":
    sys.exit(main())
