\* draw() of a 3-frame animation: loops in {-1, 1, 2, 3} x cache in {True, False, 1, 2, 3, 4, 100},
\* interrupted after any number of writes up to 3N+1
SPECIFICATION DSpec
CONSTANTS
  N = 3
  K = 0
  LoopsSet = {}
  CacheSet = {}
  OwnSet = {}
  Sizes = {}
  Durs = {}
  ArgsSet = {}
  Pads = {}
  SeekOffs = {}
  TW = 8
  TH = 6
  Terms = {}
  MaxDepth = 0
  DrawLoops <- DLoops
  DrawArgs <- DArgs
  MaxWrites = 10
CONSTRAINT DBound
VIEW DView
INVARIANT RenderOncePerFrame
INVARIANT UncachedRendersEveryWrite
INVARIANT ReturnsAfterAllLoops
INVARIANT NeverTooManyWrites
INVARIANT DataNotFinalized
PROPERTY SingleLoopAlwaysRenders
CHECK_DEADLOCK FALSE
