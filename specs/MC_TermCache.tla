---------------------------- MODULE MC_TermCache ----------------------------
(* Configurations of TermCache (C15):                                        *)
(*   MC_TermCache.cfg        cell-size / ratio operations, 3 sizes x 2 pixel sizes, all flags   *)
(*   MC_TermCache_memo.cfg   the memoized query functions with query enabling / disabling       *)
(*   MC_TermCache_cell_dump.cfg / MC_TermCache_memo_dump.cfg   quick models with the edge dump  *)
(*   MC_TermCache_all.cfg    both groups together on a smaller terminal family (thorough)       *)
(*   MC_TermCache_var.cfg    seeded regressions of the model (VARIANT from the environment)     *)
(* The invariants read `out` (the value just returned).  They are decided by the configurations *)
(* WITHOUT a VIEW (cell, memo, all, var), where the last operation is part of the state         *)
(* identity; the *_dump configurations use VIEW View only to print each edge of the             *)
(* cache-level state graph once for the replay.                                                 *)
EXTENDS TermCache, Json, IOUtils

S3 == {<<4, 2>>, <<4, 3>>, <<6, 3>>}
S2 == {<<4, 2>>, <<4, 3>>}
S1 == {<<4, 2>>}
P2 == {<<48, 36>>, <<96, 72>>}
P1 == {<<48, 36>>}
R1 == {<<3, 4>>}

EnvVariant == IF "VARIANT" \in DOMAIN IOEnv THEN IOEnv.VARIANT ELSE "code"

\* what the property allows the operation to return (judged in TLA+, compared by the replay)
Allowed ==
  IF out'.op = "GetCellSize" THEN AllowedCells(basis', env', swap', queries')
  ELSE IF out'.op = "GetRatio" /\ cr' = Nil THEN AllowedRatios(basis', env', swap', queries')
  ELSE {}

Dump == PrintT(<<"EDGE", ToJson([from |-> View, to |-> View', op |-> out', allowed |-> Allowed, lvl |-> TLCGet("level")])>>)
=============================================================================
