--------------------------- MODULE Trace_RenderIter ---------------------------
(***************************************************************************)
(* code -> spec for C08 / C09 / C10: histories recorded from the REAL       *)
(* RenderIterator (one event per public call, logged at its return, error   *)
(* path included) are replayed through the actions of RenderIter.tla.       *)
(* Steps are total; the verdict names the first event and field where the   *)
(* recorded observation differs from what the specification allows.         *)
(* An event is [op, r, loop, fin, r2]: operation with arguments, projected  *)
(* result, public `loop` after the call, number of times the render data    *)
(* has been finalized so far, and (paired runs, C09) the result of the same *)
(* call on an iterator with caching disabled.                               *)
(***************************************************************************)
EXTENDS RenderIter, IOUtils

Traces == JsonDeserialize(IOEnv.TRACE_FILE)

VARIABLES tid, l, verdict, at
tvars == <<s, out, tid, l, verdict, at>>

Tr == Traces[tid]
Ev == Tr.events
NE == Len(Ev)

CacheEnabled(arg) == IF ~Definite THEN FALSE ELSE IF arg.kind = "bool" THEN arg.b ELSE N <= arg.n

InitOf(i) ==
  LET c == CacheEnabled(i.cache) l0 == IF Definite THEN i.loops ELSE 1 IN
  [closed |-> FALSE, dropped |-> FALSE, loop |-> l0, off |-> 0,
   pend |-> IF Definite THEN NoPend ELSE InitPend, pos |-> 0,
   size |-> <<2, 1>>, dur |-> 50, args |-> "a0", pad |-> NoPad,
   cached |-> c, cache |-> IF c THEN EmptyCache ELSE <<>>,
   own |-> i.own, fin |-> 0, loops |-> l0, term |-> <<TW, TH>>]

ApplyOp(t, op) ==
  CASE op.name = "next" -> DoNext(t)
    [] op.name = "next_reclose" ->
         LET pair == DoNext(t) IN
         <<pair[1], IF pair[2].res = "frame" THEN [pair[2] EXCEPT !.inner = "ValueError"] ELSE pair[2]>>
    [] op.name = "next_fails" -> DoNextFails(t, op.kind)
    [] op.name = "seek" -> DoSeek(t, op.off, op.whence)
    [] op.name = "set_frame_duration" -> DoSet(t, "dur", op.v, op.v > 0 \/ op.v = Dyn, "ValueError")
    [] op.name = "set_padding" -> DoSetPad(t, op.v)
    [] op.name = "resize" -> DoResize(t, op.v)
    [] op.name = "set_render_args" ->
         DoSet(t, "args", op.v, op.v \notin Incompat, "IncompatibleRenderArgsError")
    [] op.name = "set_render_size" -> DoSet(t, "size", op.v, TRUE, "")
    [] op.name \in {"close", "drop"} -> DoClose(t)

FrameFields == <<"num", "dur", "size", "margins", "psize", "args", "seek", "inner">>

RECURSIVE FirstDiff(_, _, _)
FirstDiff(exp, r, i) ==
  IF i > Len(FrameFields) THEN ""
  ELSE LET f == FrameFields[i] IN
       IF exp[f] # r[f]
         THEN "frame." \o f \o ": spec " \o ToString(exp[f]) \o ", code " \o ToString(r[f])
         ELSE FirstDiff(exp, r, i + 1)

Mismatch(exp, r, checkRendered) ==
  IF exp.res # r.res THEN "result: spec " \o exp.res \o ", code " \o r.res
  ELSE IF exp.res # "frame" THEN ""
  ELSE LET d == FirstDiff(exp, r, 1) IN
       IF d # "" THEN d
       ELSE IF checkRendered /\ exp.rendered # r.rendered
              THEN "rendered: spec " \o ToString(exp.rendered) \o ", code " \o ToString(r.rendered)
              ELSE ""

Judge(t, e) ==
  \* first failing clause of event e applied in state t ("" = fine)
  LET pair == ApplyOp(t, e.op)
      m == Mismatch(pair[2], e.r, TRUE)
  IN IF e.op.name = "next_fails" /\ ~WouldRender(t)
       THEN "next:rendered: the injected render failure fired although no render is due (cached frame / exhausted / closed)"
     \* C09, first clause: the cached iterator fails (raises / stops) where the specification
     \* and its uncached twin both yield a frame
     ELSE IF e.paired /\ pair[2].res = "frame" /\ e.r2.res = "frame" /\ e.r.res # "frame"
       THEN e.op.name \o ":cached-fails-where-uncached-yields: code " \o e.r.res
     ELSE IF m # "" THEN e.op.name \o ":" \o m
     ELSE IF e.paired /\ Mismatch(pair[2], e.r2, FALSE) # ""
       THEN e.op.name \o ":uncached-twin:" \o Mismatch(pair[2], e.r2, FALSE)
     ELSE IF e.loop # pair[1].loop /\ e.op.name # "drop"
       THEN e.op.name \o ":loop: spec " \o ToString(pair[1].loop) \o ", code " \o ToString(e.loop)
     ELSE IF e.fin # pair[1].fin
       THEN e.op.name \o ":finalize-count: spec " \o ToString(pair[1].fin) \o ", code " \o ToString(e.fin)
     ELSE IF e.tell # Tr.tell0 THEN e.op.name \o ":renderable-frame-moved"
     ELSE IF e.stale THEN e.op.name \o ":render-with-finalized-data"
     ELSE ""

TInit ==
  /\ tid \in 1..Len(Traces)
  /\ l = 0
  /\ s = InitOf(Traces[tid].init)
  /\ out = [op |-> [name |-> "init"], r |-> [res |-> "ok"]]
  /\ verdict = "ok"
  /\ at = 0

TStep ==
  /\ l < NE
  /\ l' = l + 1
  /\ LET e == Ev[l + 1]
         pair == ApplyOp(s, e.op)
         j == IF verdict # "ok" THEN "" ELSE Judge(s, e)
     IN /\ s' = pair[1]
        /\ out' = [op |-> e.op, r |-> pair[2]]
        /\ verdict' = IF verdict # "ok" THEN verdict ELSE IF j = "" THEN "ok" ELSE j
        /\ at' = IF verdict = "ok" /\ j # "" THEN l + 1 ELSE at
  /\ UNCHANGED tid

TDone ==
  /\ l = NE
  /\ l' = NE + 1
  /\ UNCHANGED <<s, out, tid, verdict, at>>

TNext == TStep \/ TDone
TSpec == TInit /\ [][TNext]_tvars

Report == (l = NE + 1) =>
  PrintT(<<"VERDICT", ToJson([tid |-> tid, verdict |-> verdict, at |-> at])>>)
=============================================================================
