"""Real-code side of RenderableBase.tla (X06): probe render classes that record every hook call,
and a `World` that executes one modelled operation on a REAL `Renderable` subclass instance and
projects what happened into the record shapes of the specification (no judgement here).

Encoding shared with the spec: K(k, v) = {"k": kind, "v": int}; result records have the shape of
RenderableBase!R0; the passive projection the shape of RenderableBase!Passive.
"""

from __future__ import annotations

import sys

PROBE_DYN = lambda n: 10 * (n + 1)  # noqa: E731  - RenderableBase!DynDur


def K(k, v=0):
    return {"k": k, "v": v}


def V(k, a=0, b=0):
    return {"k": k, "a": a, "b": b}


NONE = K("none")
NO_FRAME = {"num": 0, "dur": 0, "w": 0, "h": 0, "shown": 0, "tag": "", "bw": 0, "bh": 0, "ml": 0}
NO_DATA = {"off": 0, "wh": "", "w": 0, "h": 0, "dur": NONE, "iter": False, "tag": "", "fin": False, "same": False}
NO_HDL = {"called": 0, "fin": False, "out": False, "ret": False}
INT_MAX = 2**31 - 1


def r0():
    return {"res": "ok", "val": V("none"), "frame": dict(NO_FRAME), "hooks": [], "nsize": 0, "ncount": 0,
            "data": dict(NO_DATA), "hdl": dict(NO_HDL)}


def _small(n):
    """ints that reach TLC must fit 32 bits; anything else is shown as a recognisable sentinel"""
    if type(n) is bool:
        return -7777
    if isinstance(n, int) and -INT_MAX <= n <= INT_MAX:
        return n
    return -8888


class ProbeError(Exception):
    pass


class Stream:
    """stand-in for sys.stdout: not a terminal; optionally interrupts the first write"""

    def __init__(self, interrupt):
        self.interrupt = interrupt
        self.writes = 0
        self.buf = []

    def isatty(self):
        return False

    def write(self, text):
        self.writes += 1
        if self.interrupt and self.writes == 1:
            raise KeyboardInterrupt
        self.buf.append(text)
        return len(text)

    def flush(self):
        pass

    def text(self):
        return "".join(self.buf)


def make_classes(hook: dict):
    """Fresh probe render classes (so that nothing leaks between walks / histories).

    Probe follows the documented `_render_` contract; SubProbe extends it the way the docs tell a
    subclass to (own data namespace, hooks calling the overridden ones)."""
    from term_image.geometry import Size
    from term_image.renderable import (
        ArgsNamespace,
        DataNamespace,
        Frame,
        FrameCount,
        FrameDuration,
        Renderable,
        UninitializedDataFieldError,
    )

    registry: dict[int, object] = {}  # id(render data) -> the probe that created it

    class Probe(Renderable):
        def __init__(self, fc, fd, size):
            self.size = Size(*size)
            self.log = []  # hook calls: "size", "count", "data", "render", "handler", "final"
            self.calls = 0  # `_get_frame_count_` calls / completed calls
            self.evals = 0
            self.datas = []  # every render data created (kept alive: ids stay unique)
            self.finals = {}  # id(data) -> number of `_finalize_render_data_` calls
            self.created = None
            self.seen = None  # snapshot of the data at `_render_` entry / at creation
            self.handled = None
            self.fail_next = None
            self.stream = None
            super().__init__(fc, fd)

        # -- hooks ---------------------------------------------------------------------------
        def _get_render_size_(self):
            self.log.append("size")
            return self.size

        def _get_frame_count_(self):
            self.calls += 1
            self.log.append("count")
            if hook["k"] == "unimpl":
                res = super()._get_frame_count_()  # documented: raises NotImplementedError
            else:
                res = hook["v"] if hook["k"] == "int" else FrameCount.INDEFINITE
            self.evals += 1
            return res

        def _get_render_data_(self, *, iteration):
            self.log.append("data")
            data = super()._get_render_data_(iteration=iteration)
            registry[id(data)] = self
            self.datas.append(data)
            self.finals[id(data)] = 0
            self.created = data
            self.seen = self.snapshot(data, None)
            return data

        def snapshot(self, data, args):
            d = data[Renderable]
            try:
                du = d.duration
                dur = K("dyn") if du is FrameDuration.DYNAMIC else K("int", _small(du)) if isinstance(du, int) else K("other")
            except UninitializedDataFieldError:
                dur = K("uninit")
            try:
                tag = args[Probe].tag if args is not None else ""
                if args is not None and args.render_cls is not type(self):
                    tag = "foreign-class-args"
            except Exception as e:  # noqa: BLE001
                tag = type(e).__name__
            return {"off": _small(d.frame_offset), "wh": getattr(d.seek_whence, "name", "?"), "w": d.size[0],
                    "h": d.size[1], "dur": dur, "iter": d.iteration is True, "tag": tag, "fin": bool(data.finalized),
                    "same": data is self.created}

        def _render_(self, render_data, render_args):
            self.log.append("render")
            self.seen = self.snapshot(render_data, render_args)
            if self.fail_next:
                kind, self.fail_next = self.fail_next, None
                if kind == "kb":
                    raise KeyboardInterrupt
                raise ProbeError("injected render failure")
            d = render_data[Renderable]
            num = d.frame_offset
            if not self.animated:
                dur = 0
            elif d.duration is FrameDuration.DYNAMIC:
                dur = PROBE_DYN(num)
            else:
                dur = d.duration
            tag = render_args[Probe].tag
            ch = chr((65 if tag == "a0" else 97) + num % 26)
            w, h = d.size
            return Frame(num, dur, d.size, "\n".join([ch * w] * h))

        @classmethod
        def _finalize_render_data_(cls, render_data):
            owner = registry.get(id(render_data))
            if owner is not None:
                owner.log.append("final")
                owner.finals[id(render_data)] += 1
            super()._finalize_render_data_(render_data)

        def _handle_interrupted_draw_(self, render_data, render_args, output):
            self.log.append("handler")
            before = (getattr(output, "writes", None), bool(render_data.finalized))
            ret = super()._handle_interrupted_draw_(render_data, render_args, output)
            after = (getattr(output, "writes", None), bool(render_data.finalized))
            self.handled = {"called": (self.handled or {"called": 0})["called"] + 1, "fin": before[1],
                            "out": output is self.stream and render_data is self.created,
                            "ret": ret is None and before == after}
            return ret

        # -- bookkeeping -----------------------------------------------------------------------
        def live(self):
            return sum(1 for n in self.finals.values() if n == 0)

    class ProbeArgs(ArgsNamespace, render_cls=Probe):
        tag: str = "a0"

    class SubProbe(Probe):
        def _get_render_size_(self):
            return super()._get_render_size_()

        def _get_render_data_(self, *, iteration):
            data = super()._get_render_data_(iteration=iteration)
            data[SubProbe].mark = 7
            return data

        def _render_(self, render_data, render_args):
            if not render_data.finalized and render_data[SubProbe].mark != 7:  # pragma: no cover
                raise AssertionError("own data namespace lost")
            return super()._render_(render_data, render_args)

        @classmethod
        def _finalize_render_data_(cls, render_data):
            super()._finalize_render_data_(render_data)

    class SubData(DataNamespace, render_cls=SubProbe):
        mark: int

    class Other(Renderable):
        def _get_render_size_(self):
            return Size(1, 1)

        def _render_(self, render_data, render_args):
            return Frame(0, 1, Size(1, 1), " ")

    class OtherArgs(ArgsNamespace, render_cls=Other):
        x: int = 0

    return {"Probe": Probe, "ProbeArgs": ProbeArgs, "SubProbe": SubProbe, "Other": Other, "OtherArgs": OtherArgs}


def decode(text: str):
    """-> (letter, body w, body h, left margin) of a probe output, or None if irregular"""
    lines = text.split("\n")
    lefts = {len(ln) - len(ln.lstrip(" ")) for ln in lines}
    bodies = {ln.strip(" ") for ln in lines}
    if len(lefts) != 1 or len(bodies) != 1:
        return None
    (body,) = bodies
    if not body or len(set(body)) != 1 or any(ln != ln.rstrip(" ") for ln in lines):
        return None
    return body[0], len(body), len(lines), lefts.pop()


def text_fields(text: str) -> dict:
    f = dict(NO_FRAME)
    dec = decode(text) if isinstance(text, str) else None
    if dec is None:
        f.update(tag="irregular-output", shown=-1)
        return f
    letter, bw, bh, ml = dec
    o = ord(letter)
    if 65 <= o < 91:
        f.update(tag="a0", shown=o - 65)
    elif 97 <= o < 123:
        f.update(tag="a1", shown=o - 97)
    else:
        f.update(tag="unknown-letter", shown=-1)
    f.update(bw=bw, bh=bh, ml=ml)
    return f


def _fc(a: dict):
    from term_image.renderable import FrameCount

    return a["v"] if a["k"] == "int" else FrameCount.INDEFINITE if a["k"] == "indef" else FrameCount.POSTPONED


def _fd(a: dict):
    from term_image.renderable import FrameDuration

    return a["v"] if a["k"] == "int" else FrameDuration.DYNAMIC


class World:
    """One class under test (hook variant, size of a fresh instance), its instance once it has
    been constructed, and a bystander instance of the same class."""

    def __init__(self, hook: dict, w: int, h: int, variant: int = 0):
        self.C = make_classes(hook)
        self.cls = self.C["SubProbe"] if variant & 1 else self.C["Probe"]
        self.variant = variant
        self.size0 = (w, h)
        self.r = None
        self.iters = []
        self.frames = []  # real Frame objects returned by render()
        try:
            self.by = self.cls(3, 7, (w, h))
            self.by.seek(1)
            self.by.log.clear()
        except Exception:  # noqa: BLE001 - shows as a bystander that is not what it was constructed as
            self.by = None

    # ---------------------------------------------------------------- observation
    @staticmethod
    def passive(p) -> dict:
        from term_image.renderable import FrameDuration

        if p is None:
            return {"anim": False, "tell": 0, "dur": NONE, "w": 0, "h": 0, "evals": 0, "calls": 0, "live": 0}
        n = len(p.log)
        try:
            try:
                d = p.frame_duration
                dur = K("dyn") if d is FrameDuration.DYNAMIC else K("int", _small(d)) if isinstance(d, int) else K("other")
            except Exception as e:  # noqa: BLE001
                dur = NONE if type(e).__name__ == "NonAnimatedRenderableError" else K(type(e).__name__)
            size = p.render_size
            anim = p.animated
            return {"anim": anim is True, "tell": _small(p.tell()), "dur": dur,
                    "w": size[0], "h": size[1], "evals": p.evals, "calls": p.calls, "live": p.live()}
        finally:
            del p.log[n:]  # reading render_size goes through the size hook: not part of any operation

    def obs(self) -> dict:
        return self.passive(self.r)

    def bystander(self) -> dict:
        return self.passive(self.by)

    # ---------------------------------------------------------------- operations
    def _args(self, kind):
        from term_image.renderable import RenderArgs, Renderable

        C = self.C
        if kind == "none":
            return None
        if kind == "own":
            # the class's own arguments, or (odd variants) those of its parent class: compatible either way
            cls = C["Probe"] if self.variant & 2 else self.cls
            return RenderArgs(cls, C["ProbeArgs"]("a1"))
        if kind == "base":
            return RenderArgs(Renderable)
        return RenderArgs(C["Other"])

    def do(self, op: dict) -> dict:
        from term_image.geometry import Size
        from term_image.padding import ExactPadding
        from term_image.render import RenderIterator
        from term_image.renderable import Frame, FrameCount, FrameDuration

        name = op["name"]
        res = r0()
        r = self.r
        start = len(r.log) if r is not None else 0
        if r is not None:
            r.seen = r.handled = None
        it = None
        kept = None  # render data the caller of `_init_render_` kept ownership of
        try:
            if name == "construct":
                try:
                    self.r = self.cls(_fc(op["a"]), _fd(op["b"]), self.size0)
                    self.r.log.clear()  # nothing the constructor does is a hook call of an operation
                except ValueError as e:
                    msg = str(e)
                    res["val"] = V("arg", 1 if "'frame_count'" in msg else 2 if "'frame_duration'" in msg else 0)
                    raise
                return res
            if r is None:
                raise AssertionError("operation before construction")
            if name == "animated":
                v = r.animated
                res["val"] = V("bool", int(v)) if type(v) is bool else V("not-a-bool")
            elif name == "tell":
                res["val"] = V("int", _small(r.tell()))
            elif name == "frame_count":
                v = r.frame_count
                res["val"] = (V("indef") if v is FrameCount.INDEFINITE else V("post") if v is FrameCount.POSTPONED
                              else V("int", _small(v)) if type(v) is int else V("other"))
            elif name == "get_duration":
                v = r.frame_duration
                res["val"] = V("dyn") if v is FrameDuration.DYNAMIC else V("int", _small(v)) if type(v) is int else V("other")
            elif name == "set_duration":
                r.frame_duration = _fd(op["a"])
            elif name == "render_size":
                v = r.render_size
                res["val"] = V("size", v[0], v[1]) if isinstance(v, Size) else V("other")
            elif name == "resize":
                r.size = Size(op["x"], op["y"])
            elif name == "render":
                if op["f"] != "no":
                    r.fail_next = op["f"]
                pad = op["x"]
                args = self._args(op["t"])
                if pad:
                    fr = r.render(args, ExactPadding(pad))
                elif args is None and self.variant & 4:
                    fr = r.render()
                else:
                    fr = r.render(args)
                if isinstance(fr, Frame):
                    self.frames.append(fr)
                    res["val"] = V("frame")
                    f = text_fields(fr.render_output)
                    f.update(num=_small(fr.number), dur=_small(fr.duration) if isinstance(fr.duration, int) else -9999,
                             w=fr.render_size[0], h=fr.render_size[1])
                    res["frame"] = f
                else:
                    res["val"] = V("other")
            elif name == "str":
                if op["f"] != "no":
                    r.fail_next = op["f"]
                text = str(r)
                res["val"] = V("str") if type(text) is str else V("other")
                res["frame"] = text_fields(text)
            elif name == "init_render":
                token = object()

                def renderer(data, args):
                    nonlocal kept
                    r.log.append("renderer")
                    r.seen = r.snapshot(data, args)
                    if not op["x"]:
                        kept = data
                    if op["f"] != "no":
                        raise ProbeError("injected renderer failure")
                    return token

                if self.variant & 2:
                    ret = r._init_render_(renderer, None, iteration=bool(op["y"]), finalize=bool(op["x"]))
                else:
                    ret = r._init_render_(renderer, iteration=bool(op["y"]), finalize=bool(op["x"]))
                res["val"] = V("init", int(type(ret) is tuple and len(ret) == 2 and ret[0] is token),
                               int(type(ret) is tuple and len(ret) == 2 and ret[1] is None))
            elif name == "iter":
                it = iter(r)
                fresh = isinstance(it, RenderIterator) and all(it is not x for x in self.iters)
                self.iters.append(it)
                if r.seen is not None and r.created is not None:
                    # the fresh iterator's render data must still be live (it is finalized by close())
                    r.seen = dict(r.seen, fin=bool(r.created.finalized))
                res["val"] = V("iter", int(fresh), _small(it.loop))
            elif name == "seek":
                res["val"] = V("int", _small(r.seek(op["x"])))
            elif name == "draw":
                stream = Stream(op["f"] == "interrupt")
                r.stream = stream
                old = sys.stdout
                sys.stdout = stream
                try:
                    ret = r.draw(None, ExactPadding(), animate=bool(self.variant & 4) and not r.animated,
                                 check_size=False)
                finally:
                    sys.stdout = old
                    text = stream.text()
                res["val"] = V("drawn") if ret is None else V("other")
                res["frame"] = text_fields(text[:-1]) if text.endswith("\n") else text_fields(None)
            elif name == "assign":
                t = op["t"]
                if t == "frame_count":
                    r.frame_count = 3
                elif t == "render_size":
                    r.render_size = Size(1, 1)
                else:
                    del r.frame_duration
            else:
                raise AssertionError(name)
        except AssertionError:
            raise
        except BaseException as e:  # noqa: BLE001 - the exception class is the observable
            if isinstance(e, (SystemExit, MemoryError)):
                raise
            res["res"] = type(e).__name__
            res["msg"] = str(e)[:160]
        finally:
            r = self.r
            if r is not None and name != "construct":
                r.fail_next = None
                if it is not None:
                    it.close()  # the caller is done with the iterator: releases its render data
                log = r.log[start:]
                res["hooks"] = [x for x in log if x in ("data", "render", "renderer", "handler", "final")]
                res["nsize"] = log.count("size")
                res["ncount"] = log.count("count")
                if r.seen is not None:
                    res["data"] = r.seen
                if r.handled is not None:
                    res["hdl"] = r.handled
                if kept is not None:  # the caller's own duty, after the operation
                    n = len(r.log)
                    kept.finalize()
                    del r.log[n:]
        return res


def frame_laws(frames: list, rng) -> dict:
    """The `fr` section of a trace: real Frame objects (as returned by render()), field-wise copies
    and one-field variants of them; what ==, hash, str and mutation attempts do with them."""
    from term_image.geometry import Size
    from term_image.renderable import Frame

    pool = list(frames[:3])
    for f in list(pool):
        pool.append(Frame(f.number, f.duration, Size(*f.render_size), str(f.render_output)))
    base = pool[0] if pool else Frame(0, 1, Size(1, 1), "A")
    which = rng.randrange(4)
    pool.append(base)
    pool.append(Frame(base.number, base.duration, base.render_size, base.render_output))
    pool.append(Frame(base.number + (which == 0), base.duration + (which == 1),
                      Size(base.render_size[0] + (which == 2), base.render_size[1]),
                      base.render_output + ("x" if which == 3 else "")))
    pool.append(Frame(base.number + 1, base.duration, base.render_size, base.render_output))
    outs: dict[str, int] = {}
    fs = [{"num": _small(f.number), "dur": _small(f.duration), "w": f.render_size[0], "h": f.render_size[1],
           "oid": outs.setdefault(f.render_output, len(outs))} for f in pool]
    n = len(pool)
    eq, heq, ne = [], [], []
    for i in range(n):
        for j in range(n):
            e = pool[i] == pool[j]
            if e:
                eq.append([i + 1, j + 1])
            if hash(pool[i]) == hash(pool[j]):
                heq.append([i + 1, j + 1])
            if (pool[i] != pool[j]) == e:
                ne.append([i + 1, j + 1])
    strs = [str(f) == f.render_output and type(str(f)) is str for f in pool]
    mut = []
    for k, f in enumerate(pool):
        field = ("number", "duration", "render_size", "render_output")[k % 4]
        try:
            if k % 2:
                setattr(f, field, getattr(f, field))
            else:
                delattr(f, field)
            mut.append("accepted")
        except Exception as e:  # noqa: BLE001
            mut.append(type(e).__name__)
    # informational only (the tuple nature of Frame is documented as an implementation detail)
    tuple_view = all(tuple(f) == (f.number, f.duration, f.render_size, f.render_output) for f in pool)
    return {"f": fs, "eq": eq, "heq": heq, "ne": ne, "str": strs, "mut": mut, "tuple_view": tuple_view}
