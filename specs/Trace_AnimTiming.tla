--------------------------- MODULE Trace_AnimTiming ---------------------------
(***************************************************************************)
(* X11, code -> spec: traces recorded from the real draw() of an animated  *)
(* renderable / image on the virtual clock (harness/x11_world.py) are      *)
(* judged here.  A trace is [sc, ev, nat, rep, inexact, exc]: the scenario, *)
(* the events [k, f, t0, t1, a] (AnimTimingCore), the duration the file     *)
(* gives in ms and what frame_duration reported in microseconds (old API).  *)
(* Every step consumes one event: first the laws, stated on the OBSERVED    *)
(* events only (what a spectator with a clock can check), then the event    *)
(* the model produces next (Minimality / StepOrder).  The verdict names the *)
(* first failing clause: <api>:<Law>:<detail>.                              *)
(***************************************************************************)
EXTENDS AnimTimingCore, TLC, Json, IOUtils

Traces == JsonDeserialize(IOEnv.TRACE_FILE)

VARIABLES tid, i, m, verdict, at, laws
vars == <<tid, i, m, verdict, at, laws>>

Tr == Traces[tid]
H == Tr.ev
N == Len(H)

Count(h, lo, hi, kind) == Len(Sel(SubSeq(h, lo, hi), kind))

\* the laws on the observed events h[1..j]; "ok" or the failing clause
Law(T, j) ==
  LET h == T.ev
      sc == T.sc
      e == h[j]
      sb == ShowBefore(h, j)
      shown == Count(h, 1, j - 1, "show")
      cutBefore == \E x \in 1..(j - 1) : h[x].k = "intr"
      chgBefore == \E x \in 1..(j - 1) : h[x].k = "chg"
  IN
  IF j = 1 /\ T.rep # T.nat * 1000 THEN "Units:frame_duration"
  ELSE IF j = 1 /\ T.inexact > 0 THEN "Units:sleep-not-whole-ticks"
  ELSE IF e.t1 < e.t0 \/ (j > 1 /\ e.t0 < h[j - 1].t1) THEN "Clock:order"
  ELSE IF cutBefore /\ e.k # "end" THEN "InterruptEnds:" \o e.k
  ELSE IF e.k = "sleep" THEN
    IF sb = 0 THEN "NoSleepBeforeFirstFrame:sleep"
    ELSE LET el == e.t0 - h[sb].t1
             want == Max(0, Dur(sc, h[sb].f) - el)
         IN IF e.a < 0 THEN "SleepNonNegative:amount"
            ELSE IF Count(h, sb + 1, j - 1, "sleep") > 0 THEN "OneSleepBetweenFrames:extra"
            ELSE IF e.a # want /\ chgBefore /\ ~sc.dyn /\ e.a = Max(0, sc.chgv - el)
                 THEN "DurationFrozen:amount"
            ELSE IF e.a > want THEN "NoOverSleep:amount"
            ELSE IF e.a < want THEN "FrameDwell:amount"
            ELSE IF e.t1 # e.t0 + e.a /\ ~(j < Len(h) /\ h[j + 1].k = "intr") THEN "Clock:sleep"
            ELSE "ok"
  ELSE IF e.k = "show" THEN
    IF sc.n = 0 \/ (Total(sc) >= 0 /\ shown + 1 > Total(sc)) THEN "Termination:extra-frame"
    ELSE IF e.f # FrameAt(sc, shown + 1) THEN "Termination:frame-order"
    ELSE IF sb = 0 THEN "ok"
    ELSE IF Count(h, sb + 1, j - 1, "sleep") = 0 THEN "OneSleepBetweenFrames:missing"
    ELSE IF e.t0 - h[sb].t1 < Dur(sc, h[sb].f) THEN "FrameDwell:short"
    ELSE "ok"
  ELSE IF e.k = "render" THEN
    IF e.f >= 0 /\ Cached(sc) /\ (\E x \in 1..(j - 1) : h[x].k = "render" /\ h[x].f = e.f)
      THEN "Termination:cached-frame-rendered-again"
    ELSE IF e.f >= 0 /\ Total(sc) >= 0 /\ shown >= Total(sc) THEN "Termination:extra-render"
    ELSE IF sb > 0 /\ Count(h, sb + 1, j - 1, "sleep") > 0 THEN "RenderDuringDwell:after-sleep"
    ELSE IF sb > 0 /\ e.t0 < h[sb].t1 THEN "RenderDuringDwell:before-flush"
    ELSE "ok"
  ELSE IF e.k = "end" THEN
    LET clean == ~cutBefore /\ ~Rejected(sc)
        rend == Len(SelectSeq(SubSeq(h, 1, j - 1), LAMBDA x : x.k = "render" /\ x.f >= 0))
        slept == Count(h, 1, j - 1, "sleep")
    IN IF j # Len(h) THEN "Termination:after-end"
       ELSE IF e.a # (IF Rejected(sc) THEN 1 ELSE 0) THEN "NoTraceback:outcome"
       ELSE IF Rejected(sc) /\ j # 1 THEN "Termination:refused-late"
       ELSE IF ~clean THEN "ok"
       ELSE IF shown # Total(sc) THEN "Termination:frames"
       ELSE IF rend # (IF Cached(sc) THEN sc.n ELSE Total(sc)) THEN "Termination:renders"
       ELSE IF LastDwell(sc) /\ sb > 0 /\ e.t0 - h[sb].t1 < Dur(sc, h[sb].f) THEN "FrameDwell:last"
       ELSE IF slept # (IF LastDwell(sc) THEN shown ELSE Max(0, shown - 1)) THEN "SleepCount:count"
       ELSE IF sc.n = 0 /\ j # 2 THEN "ZeroFrames:events"
       ELSE "ok"
  ELSE "ok"

\* the model's next event against the observed one
Model(mm, e) ==
  IF mm.pc = "done" THEN "StepOrder:extra-" \o e.k
  ELSE LET x == NextEv(mm).hist[Len(NextEv(mm).hist)]
       IN IF x.k # e.k THEN "StepOrder:" \o x.k \o "-expected-" \o e.k \o "-seen"
          ELSE IF x.f # e.f THEN "Minimality:" \o e.k \o ".f"
          ELSE IF x.a # e.a THEN "Minimality:" \o e.k \o ".a"
          ELSE IF x.t0 # e.t0 THEN "Minimality:" \o e.k \o ".t0"
          ELSE IF x.t1 # e.t1 THEN "Minimality:" \o e.k \o ".t1"
          ELSE "ok"

LawName(v) == v

Init ==
  /\ tid \in 1..Len(Traces)
  /\ i = 0
  /\ m = Init0(Traces[tid].sc)
  /\ verdict = "ok"
  /\ at = 0
  /\ laws = {}

Consume ==
  /\ i < N
  /\ i' = i + 1
  /\ LET e == H[i + 1]
         l == Law(Tr, i + 1)
         j == IF l # "ok" THEN l ELSE Model(m, e)
         v == IF verdict # "ok" THEN verdict ELSE j
     IN /\ verdict' = v
        /\ at' = IF verdict = "ok" /\ v # "ok" THEN i + 1 ELSE at
        /\ m' = NextEv(m)
        /\ laws' = IF v = "ok" THEN laws \cup {e.k} ELSE laws
  /\ UNCHANGED tid

Finish ==
  /\ i = N
  /\ i' = N + 1
  /\ verdict' = IF verdict # "ok" THEN verdict
                ELSE IF N = 0 \/ H[N].k # "end" THEN "Termination:no-end"
                ELSE IF m.pc # "done" THEN "StepOrder:model-not-finished"
                ELSE "ok"
  /\ UNCHANGED <<tid, m, at, laws>>

Next == Consume \/ Finish
Spec == Init /\ [][Next]_vars

Done == i = N + 1
Report ==
  Done => PrintT(<<"VERDICT", ToJson([tid |-> tid, verdict |-> Tr.sc.api \o ":" \o verdict,
                                        at |-> at, events |-> N])>>)
=============================================================================
