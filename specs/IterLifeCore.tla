---------------------------- MODULE IterLifeCore ----------------------------
(***************************************************************************)
(* X09: argument / life-cycle state machine of the public API of           *)
(* term_image.image.ImageIterator (image/common.py; docs api/image.rst).   *)
(* Functional core, no variables.                                          *)
(*                                                                         *)
(* What is NOT restated here (owned by other checks): what a frame looks   *)
(* like (C11: frame = format() of that frame), file handles / temp files / *)
(* the caller's PIL image (C11), sizes (C04 / C11), cache INVISIBILITY     *)
(* (C09), the format-spec grammar (C19).  A yielded frame is a frame       *)
(* NUMBER here.                                                            *)
(*                                                                         *)
(* Configuration c = [n]  (frame count of the one animated image; the      *)
(* Trace module adds src = "file" | "pil").                                *)
(*                                                                         *)
(* State s = [tell, its]:  tell = image.tell();  its[k] = the iterator     *)
(* held in slot k (several iterators may live over the SAME image):        *)
(*   ph     "none" (no object) | "fresh" (constructed, next() not yet      *)
(*          called) | "started" | "exhausted" | "closed"                   *)
(*   n      next frame number, 0..N;  N = "the loop is complete": the next *)
(*          next() starts another loop or ends the iteration               *)
(*   left   repeat countdown (rep0 .. 1; negative = infinite)              *)
(*   ln     what the loop_no property reads: "None" or the countdown       *)
(*   rep0, spec, via   constructor arguments in force (spec = token)       *)
(*   ceff   caching is in force                                            *)
(*   later  (only when ceff) a loop after the first one is running         *)
(*   filled (only when ceff) frames rendered and stored so far             *)
(*   cnt    (finite repeat, no seek so far) frames yielded so far          *)
(*   sk     a seek() was accepted                                          *)
(*                                                                         *)
(* Values offered to the API: V(t, i, s) - type tag, integer, string.      *)
(*   bool: i = 0/1;  float: s = repr();  str (format_spec): s = a TOKEN    *)
(*   whose class SpecClass gives (the harness owns token -> concrete       *)
(*   string per render style; C19 owns the grammar).                       *)
(* Operation [op, k, img, a, b, c, via]:                                   *)
(*   new      k slot, img = which object is passed as `image`, a = repeat, *)
(*            b = format_spec, c = cached, via = "ctor" | "iter"           *)
(*            ("iter": iter(image))                                        *)
(*   next / close / iter / setln / drop    k slot                          *)
(*   seek     k slot, a = pos                                              *)
(*   imgseek  a = pos  (the caller moves the IMAGE's seek position)        *)
(*                                                                         *)
(* Step(c, s, o) = [st, res, ret, frame, rend, opens]: next state, SET of  *)
(* admissible result classes (the documentation does not order the         *)
(* argument checks), return token, yielded frame number (-1: none), SET of *)
(* admissible numbers of frames rendered anew during the call, admissible  *)
(* numbers of times the source FILE is opened (per source kind).           *)
(***************************************************************************)
EXTENDS Integers, Sequences, FiniteSets, TLC

V(t, i, s) == [t |-> t, i |-> i, s |-> s]
AbsentV == V("absent", 0, "")              \* argument not passed: the documented default applies
NoneV == V("none", 0, "")
IntV(n) == V("int", n, "")
BoolV(b) == V("bool", IF b THEN 1 ELSE 0, "")
FloatV(r) == V("float", 0, r)
StrV(x) == V("str", 0, x)
BytesV == V("bytes", 0, "")
ObjV == V("obj", 0, "")
ValueTags == {"absent", "none", "int", "bool", "float", "str", "bytes", "obj"}

\* format_spec tokens.  "plain" = "", "fmt" = a valid specifier with padding / alpha / style part,
\* "bad" = violates the general grammar, "badstyle" = valid general part, invalid style-specific part
SpecTokens == {"plain", "fmt", "bad", "badstyle"}
SpecClass(tok) == CASE tok \in {"plain", "fmt"} -> "ok" [] tok = "bad" -> "invalid" [] tok = "badstyle" -> "styleinvalid"

\* what is passed as `image`: the animated image of the world, something that is not a BaseImage
\* (a PIL image / a path / None), a non-animated BaseImage, an animated but finalized BaseImage
ImgKinds == {"good", "nonimage", "still", "finalized"}

Op(op, k, img, a, b, cc, via) == [op |-> op, k |-> k, img |-> img, a |-> a, b |-> b, c |-> cc, via |-> via]
NewOp(k, img, a, b, cc) == Op("new", k, img, a, b, cc, "ctor")
IterOp(k) == Op("new", k, "good", AbsentV, AbsentV, AbsentV, "iter")
Op0(op, k) == Op(op, k, "", NoneV, NoneV, NoneV, "")
Op1(op, k, a) == Op(op, k, "", a, NoneV, NoneV, "")
OpNames == {"new", "next", "seek", "close", "iter", "setln", "imgseek", "drop"}

---------------------------------------------------------------------------
(* State                                                                    *)
It(ph, n, left, ln, rep0, spec, via, ceff, later, filled, cnt, sk) ==
  [ph |-> ph, n |-> n, left |-> left, ln |-> ln, rep0 |-> rep0, spec |-> spec, via |-> via,
   ceff |-> ceff, later |-> later, filled |-> filled, cnt |-> cnt, sk |-> sk]
Blank == It("none", 0, 0, "None", 0, "", "", FALSE, FALSE, {}, 0, FALSE)
Ended == {"exhausted", "closed"}
Live(it) == it.ph # "none"
\* an ended iterator keeps only what its attributes still show
EndedIt(it, ph, ln) == It(ph, 0, 0, ln, it.rep0, it.spec, it.via, it.ceff, FALSE, {}, 0, FALSE)

State0(slots) == [tell |-> 0, its |-> [k \in slots |-> Blank]]
Slots(s) == DOMAIN s.its
WithIt(s, k, it) == [s EXCEPT !.its[k] = it]

---------------------------------------------------------------------------
(* Constructor arguments, as documented                                     *)
(*   image: "Animated image"; repeat: "The number of times to go over the   *)
(*   entire image. A negative value implies infinite repetition" (int != 0);*)
(*   format_spec: a format specifier (str); cached: "a boolean" or "a       *)
(*   positive integer".  Raises: TypeError "An argument is of an            *)
(*   inappropriate type", ValueError "... appropriate type but has an       *)
(*   unexpected/invalid value", StyleError "Invalid style-specific format   *)
(*   specifier".  A finalized image refuses every rendering entry point     *)
(*   with TermImageError (BaseImage).                                       *)
ImgErrs(img) ==
  CASE img = "good" -> {}
    [] img = "nonimage" -> {"TypeError"}
    [] img = "still" -> {"ValueError"}
    [] img = "finalized" -> {"TermImageError"}
RepErrs(a) ==
  IF a.t = "absent" THEN {}
  ELSE IF a.t = "int" THEN (IF a.i = 0 THEN {"ValueError"} ELSE {})
  ELSE {"TypeError"}
SpecErrs(b) ==
  IF b.t = "absent" THEN {}
  ELSE IF b.t = "str" THEN
    (CASE SpecClass(b.s) = "ok" -> {}
       [] SpecClass(b.s) = "invalid" -> {"ValueError"}
       [] SpecClass(b.s) = "styleinvalid" -> {"StyleError"})
  ELSE {"TypeError"}
CachedErrs(cc) ==
  IF cc.t \in {"absent", "bool"} THEN {}
  ELSE IF cc.t = "int" THEN (IF cc.i <= 0 THEN {"ValueError"} ELSE {})
  ELSE {"TypeError"}
NewErrs(o) == ImgErrs(o.img) \cup RepErrs(o.a) \cup SpecErrs(o.b) \cup CachedErrs(o.c)

\* defaults of the signature: repeat = -1, format_spec = "", cached = 100;
\* iter(image): "a repeat count of 1, hence caching is disabled ... frames ... as returned by str(image)"
RepOf(o) == IF o.via = "iter" THEN 1 ELSE IF o.a.t = "absent" THEN -1 ELSE o.a.i
SpecOf(o) == IF o.via = "iter" THEN "str" ELSE IF o.b.t = "absent" THEN "plain" ELSE o.b.s
CachedOf(o) == IF o.via = "iter" THEN BoolV(FALSE) ELSE IF o.c.t = "absent" THEN IntV(100) ELSE o.c

\* "If repeat equals 1, caching is disabled";  cached: "a boolean, caching is enabled if True ...
\* a positive integer, caching is enabled only if the framecount of the image is less than or
\* equal to the given number"
CEff(n, rep, cc) == rep # 1 /\ (IF cc.t = "bool" THEN cc.i = 1 ELSE n <= cc.i)

Fresh(c, o) ==
  It("fresh", 0, RepOf(o), "None", RepOf(o), SpecOf(o), o.via, CEff(c.n, RepOf(o), CachedOf(o)), FALSE, {}, 0, FALSE)

---------------------------------------------------------------------------
(* seek(pos): TypeError / ValueError for the argument ("Frame numbers start *)
(* from 0"), TermImageError "Iteration has not yet started or the iterator  *)
(* is exhausted/closed".  image.seek(pos): same argument rules.             *)
PosErrs(c, a) ==
  IF a.t # "int" THEN {"TypeError"}
  ELSE IF a.i < 0 \/ a.i >= c.n THEN {"ValueError"}
  ELSE {}
SeekErrs(c, it, a) ==
  PosErrs(c, a) \cup (IF it.ph \in {"fresh"} \cup Ended THEN {"TermImageError"} ELSE {})

---------------------------------------------------------------------------
(* Results                                                                  *)
OpensNone == [file |-> {0}, pil |-> {0}]
\* not judged: an operation that needs the frame count (seek(); the first next() of a caching
\* iterator) may open the source once to count the frames (X02 owns that)
OpensAny == [file |-> 0..3, pil |-> {0}]
\* an accepted construction opens the source of a file-backed image (and may count its frames)
OpensNew == [file |-> {1, 2}, pil |-> {0}]

R(st, res, ret, frame, rend, opens) ==
  [st |-> st, res |-> res, ret |-> ret, frame |-> frame, rend |-> rend, opens |-> opens]
Unchanged(s, res, opens) == R(s, res, "-", -1, {0}, opens)

\* next() yields frame f.  `later`: a loop after the first one is running.
\*   caching not in force            -> the frame is rendered anew
\*   stored, in a later loop         -> it is NOT rendered again (what caching is for)
\*   stored, still in the first loop -> DEVIATION tolerated: "cached (for speed up of subsequent
\*        renders)", yet the code renders a frame again when a seek() leads back to it before
\*        the first loop is complete; either is admitted
YieldStep(c, s, k, it, f, later) ==
  LET stored == it.ceff /\ f \in it.filled
      rend == IF ~stored THEN {1} ELSE IF later THEN {0} ELSE {0, 1}
      it2 == [it EXCEPT !.n = f + 1, !.later = later /\ it.ceff,
                        !.filled = IF it.ceff THEN @ \cup {f} ELSE {},
                        !.cnt = IF it.rep0 > 0 /\ ~it.sk THEN @ + 1 ELSE 0]
  \* "The number of the last yielded frame is set as the image's seek position"
  IN R([tell |-> f, its |-> [s.its EXCEPT ![k] = it2]], {"frame"}, "-", f, rend, OpensAny)

NextStep(c, s, o) ==
  LET it == s.its[o.k] IN
  IF it.ph \in Ended THEN Unchanged(s, {"stop"}, OpensNone)        \* StopIteration, for ever
  ELSE IF it.ph = "fresh" THEN
    \* loop_no: "None, if iteration hasn't started. Otherwise, the current iteration repeat
    \* countdown value"
    YieldStep(c, s, o.k, [it EXCEPT !.ph = "started", !.ln = ToString(it.rep0)], 0, FALSE)
  ELSE IF it.n < c.n THEN YieldStep(c, s, o.k, it, it.n, it.later)
  ELSE \* the loop is complete.  loop_no "changes on the first iteration of each loop, except for
       \* infinite iteration ...  When iteration has ended, the value is zero"
    LET left1 == IF it.left > 0 THEN it.left - 1 ELSE it.left IN
    IF left1 = 0 THEN
      \* "After the iterator is exhausted, the underlying image is set to frame 0"
      R([tell |-> 0, its |-> [s.its EXCEPT ![o.k] = EndedIt(it, "exhausted", "0")]], {"stop"}, "-", -1, {0}, OpensNone)
    ELSE YieldStep(c, s, o.k, [it EXCEPT !.left = left1, !.ln = ToString(left1)], 0, TRUE)

Step(c, s, o) ==
  CASE o.op = "new" ->
         IF NewErrs(o) # {} THEN Unchanged(s, NewErrs(o), OpensNone)      \* rejected: opens nothing
         ELSE R(WithIt(s, o.k, Fresh(c, o)), {"ok"}, "-", -1, {0}, OpensNew)
    [] o.op = "next" -> NextStep(c, s, o)
    [] o.op = "seek" ->
         LET it == s.its[o.k]
             errs == SeekErrs(c, it, o.a)
         IN IF errs # {} THEN Unchanged(s, errs, OpensAny)
            \* "Sets the frame number to be yielded on the next iteration without affecting the
            \* repeat count"
            ELSE R(WithIt(s, o.k, [it EXCEPT !.n = o.a.i, !.sk = TRUE, !.cnt = 0]), {"ok"}, "-", -1, {0}, OpensAny)
    [] o.op = "close" ->
         LET it == s.its[o.k] IN
         \* "Closes the iterator ... Does not reset the frame number of the underlying image";
         \* closing again changes nothing
         IF it.ph \in Ended THEN Unchanged(s, {"ok"}, OpensNone)
         ELSE R(WithIt(s, o.k, EndedIt(it, "closed", it.ln)), {"ok"}, "-", -1, {0}, OpensNone)
    [] o.op = "iter" -> R(s, {"ok"}, "self", -1, {0}, OpensNone)       \* an iterator: iter(it) is it
    [] o.op = "setln" -> Unchanged(s, {"AttributeError"}, OpensNone)   \* loop_no is read-only
    [] o.op = "imgseek" ->
         \* "Directly adjusting the seek position of the image doesn't affect iteration"
         IF PosErrs(c, o.a) # {} THEN Unchanged(s, PosErrs(c, o.a), OpensAny)
         ELSE R([s EXCEPT !.tell = o.a.i], {"ok"}, "-", -1, {0}, OpensAny)
    [] o.op = "drop" ->
         \* garbage collection closes the iterator ("automatically called when the iterator is
         \* ... garbage-collected"): the frame number of the image stays
         R(WithIt(s, o.k, Blank), {"ok"}, "-", -1, {0}, OpensNone)

Accepts(c, s, o) == Step(c, s, o).res \cap {"ok", "frame", "stop"} # {}
Apply(c, s, o) == Step(c, s, o).st

\* operations the model offers in state s
Enabled(c, s, o) ==
  CASE o.op = "new" -> o.k \in Slots(s) /\ (NewErrs(o) = {} => s.its[o.k].ph = "none")
    [] o.op = "imgseek" -> TRUE
    [] OTHER -> o.k \in Slots(s) /\ Live(s.its[o.k])

WFValue(v) == v.t \in ValueTags /\ (v.t = "bool" => v.i \in {0, 1})
WFOp(o) ==
  /\ o.op \in OpNames
  /\ WFValue(o.a) /\ WFValue(o.b) /\ WFValue(o.c)
  /\ o.op = "new" => /\ o.img \in ImgKinds /\ o.via \in {"ctor", "iter"}
                     /\ (o.b.t = "str" => o.b.s \in SpecTokens)
                     /\ (o.via = "iter" => o.img = "good")

---------------------------------------------------------------------------
(* Projection compared with the real objects after EVERY operation:         *)
(*   per slot: does an object exist, loop_no, the fields of repr();         *)
(*   the image: tell(), size setting unchanged, not finalized.              *)
(* repr: "<Class>(image=<repr(image)>, repeat=.., format_spec=.., cached=.., *)
(* loop_no=..)": class = the class that was instantiated ("same"), image =  *)
(* the image's own repr, repeat / format_spec as given, cached = whether    *)
(* caching is in force.  "any": not judged (iter(image) chooses the spec).  *)
BlankRp == [ok |-> FALSE, cls |-> "", img |-> FALSE, rep |-> 0, spec |-> "", cached |-> FALSE, ln |-> ""]
ItObs(it) ==
  IF it.ph = "none" THEN [live |-> FALSE, ln |-> "None", rp |-> BlankRp]
  ELSE [live |-> TRUE, ln |-> it.ln,
        rp |-> [ok |-> TRUE, cls |-> "same", img |-> TRUE, rep |-> it.rep0,
                spec |-> IF it.via = "iter" THEN "any" ELSE "same", cached |-> it.ceff, ln |-> it.ln]]
ImgObs(s) == [tell |-> s.tell, sizeok |-> TRUE, closed |-> FALSE]
Obs(s) == [img |-> ImgObs(s), its |-> [k \in Slots(s) |-> ItObs(s.its[k])]]
=============================================================================
