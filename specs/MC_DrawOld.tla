------------------------------ MODULE MC_DrawOld ------------------------------
(* FRAME(i) occupies ONE cell-line here: the program is composed with the terminal for  *)
(* one-line images (lines = padded height = 1) and, for taller regions, as a frame whose *)
(* placeholder stands on the LAST line (cursor ends there), preceded by lines-1 LF.      *)
EXTENDS DrawOld, Json
VARIABLES c, l, T, bad
vars == <<c, l, T, bad>>
Params == [frames : 1..3, repeat : 1..3, cached : BOOLEAN, tty : BOOLEAN, lines : 1..3, r0 : 0..3,
           rows : {4}, cols : {4}]
Valid(p) == (p.frames = 1 => p.repeat = 1 /\ ~p.cached) /\ p.r0 + p.lines <= p.rows
\* expand the placeholder: a frame is `lines` lines, its last line carries the placeholder
RECURSIVE Expand(_, _, _)
Expand(toks, n, i) ==
  IF i > Len(toks) THEN <<>>
  ELSE IF toks[i].k = "print" /\ toks[i].m >= 57344
         THEN [j \in 1..(n - 1) |-> Simple("lf")] \o <<toks[i]>> \o Expand(toks, n, i + 1)
         ELSE <<toks[i]>> \o Expand(toks, n, i + 1)
Stream == Expand(Flat(Prog(c), 1), c.lines, 1)
N == Len(Stream)
Init == /\ c \in {p \in Params : Valid(p)} /\ l = 0 /\ T = NewTerminal(c.cols, c.rows, c.r0, 0) /\ bad = ""
        /\ (c.r0 = 0) => PrintT(<<"PROG", ToJson([c |-> c, prog |-> Prog(c)])>>)
FrameCells(S) == {q \in DOMAIN S.cells : S.cells[q].g = "ch"}
Consume == /\ l < N /\ l' = l + 1 /\ T' = Apply(T, Stream[l + 1], <<>>)
           /\ bad' = IF bad # "" THEN bad
                     ELSE IF T'.err # "" \/ T'.scrolls > Max(0, c.r0 + c.lines - c.rows + 1) THEN "StepOK"
                     ELSE IF \E q \in FrameCells(T') : q # <<c.r0 + c.lines - 1, 0>> THEN "FrameMoved" ELSE ""
           /\ UNCHANGED c
Finish == /\ l = N /\ l' = N + 1
          /\ bad' = IF bad # "" THEN bad
                    ELSE IF ~(AbsRow(T) = c.r0 + c.lines /\ T.c = 0 /\ T.vis /\ SgrDefault(T)) THEN "EndsBelow"
                    ELSE IF T.cells[<<c.r0 + c.lines - 1, 0>>].ch # 57344 + (c.frames - 1) THEN "LastFrame" ELSE ""
          /\ UNCHANGED <<c, T>>
Spec == Init /\ [][Consume \/ Finish]_vars
SamePlaceEveryFrame == bad \notin {"StepOK", "FrameMoved"}
EndsBelowShowingLastFrame == bad \notin {"EndsBelow", "LastFrame"}
=============================================================================
