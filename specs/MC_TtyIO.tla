------------------------------ MODULE MC_TtyIO ------------------------------
(* Configurations of TtyIO (X08).                                                              *)
(*   MC_TtyIO_read.cfg / _write.cfg       the laws (no VIEW: they read `out`)                   *)
(*   MC_TtyIO_read_dump.cfg / _write_dump.cfg  the same graphs with VIEW View + the edge dump   *)
(*   *_t*.cfg                             thorough constants                                   *)
(*   MC_TtyIO_var.cfg                     seeded regressions of the model (VARIANT from the     *)
(*                                        environment): each must violate a law                *)
EXTENDS TtyIO, Json, IOUtils

CONSTANTS Times, MaxChunks, MaxChunk, MaxBytes

RECURSIVE SumTo(_, _)
SumTo(f, n) == IF n = 0 THEN 0 ELSE f[n] + SumTo(f, n - 1)

Sorted(T) == CHOOSE q \in [1..Cardinality(T) -> T] : \A i \in 1..(Cardinality(T) - 1) : q[i] < q[i + 1]

\* every schedule of at most MaxChunks chunks at distinct times of Times, each of 1..MaxChunk
\* bytes, at most MaxBytes bytes together
AllScheds ==
  UNION {{[i \in 1..Cardinality(T) |-> <<Sorted(T)[i], f[i]>>] :
            f \in {g \in [1..Cardinality(T) -> 1..MaxChunk] : SumTo(g, Cardinality(T)) <= MaxBytes}} :
         T \in {U \in SUBSET Times : Cardinality(U) <= MaxChunks}}

MoresQuick == {<<"default", 0>>, <<"count", 2>>, <<"term", 0>>}
MoresAll == {<<"default", 0>>, <<"always", 0>>, <<"never", 0>>, <<"count", 2>>, <<"term", 0>>}
MoresThorough == {<<"default", 0>>, <<"never", 0>>, <<"count", 2>>, <<"term", 0>>}
TmosQuick == {TNone, 0, 4, TInf}
TmosAll == {TNone, 0, 2, 4, TInf}
TmosWrite == {TNone, 4}
MoresWrite == {<<"default", 0>>}
PlansVar == {<<>>, <<1>>}
Terms3 == <<3>>
Terms2 == <<2>>

D1 == <<101>>
D3 == <<101, 102, 103>>
DatasRead == {D1}
DatasWrite == {D1, D3}
PlansNone == {<<>>}
PlansAll == {<<>>, <<1>>, <<2>>, <<1, 1>>}

EnvVariant == IF "VARIANT" \in DOMAIN IOEnv THEN IOEnv.VARIANT ELSE "code"

\* compact identification of a state up to its history (= VIEW Future) for the edge dump
OpKey(o) == <<o.op, o.min, o.tmo, o.echo, o.mk, o.mn, o.data, o.plan>>
Key(st) == <<st.tty, st.techo, st.sched, st.now, st.inq, Len(st.pend), st.echo, st.wbuf,
             st.pc, OpKey(st.op), st.t0, st.tm, st.buf, st.cl, st.wrem, st.pi>>

\* what the replay needs of a step: the action, the operation (where a call begins), what the caller
\* gets and when, the terminal afterwards (history-free part + what the step appended to the histories)
Lbl(o) == [a |-> o.a,
           op |-> IF o.a \in {"ReadBegin", "ReadAllBegin", "WriteBegin", "NoTerminal"} THEN o.op ELSE [op |-> "-"],
           res |-> o.res, t |-> o.t, obs |-> o.obs, d |-> o.d]
Dump == PrintT(<<"EDGE", ToJson([from |-> Key(s), op |-> Lbl(out'), to |-> Key(s')])>>)
InitDump == TLCGet("level") = 1 => PrintT(<<"INIT", ToJson(Key(s))>>)
=============================================================================
