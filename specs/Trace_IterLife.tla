--------------------------- MODULE Trace_IterLife ---------------------------
(***************************************************************************)
(* X09: code -> spec.  Each trace is one history of operations executed on *)
(* REAL ImageIterator objects (one or two of them over the same animated   *)
(* image), recorded at the return of every call, with - after EVERY call - *)
(* loop_no and the parsed repr() of every iterator and tell() / size /     *)
(* closed of the image.                                                    *)
(*                                                                         *)
(*   trace = [c, slots, ev]    c = [n, src]  frame count, "file" | "pil"   *)
(*   event = [o, res, ret, frame, rend, opens, unr, obs]                   *)
(*     o      operation record (IterLifeCore)                              *)
(*     res    "ok" | "frame" | "stop" | exception class name               *)
(*     ret    "-" | "self" | "other"          (iter(it))                   *)
(*     frame  number of the yielded frame, -1 none, -2 not recognisable    *)
(*     rend   frames rendered anew during the call                         *)
(*     opens  times the library opened the source file during the call     *)
(*     unr    exceptions that escaped a finalizer during the call          *)
(*     obs    projection, same shape as IterLifeCore!Obs                   *)
(*                                                                         *)
(* Steps are total: S follows the MODEL whatever was observed; the verdict *)
(* names the first failing clause, the event, the operation and the phase  *)
(* the iterator was in.                                                    *)
(***************************************************************************)
EXTENDS IterLifeCore, Json, IOUtils

Traces == JsonDeserialize(IOEnv.TRACE_FILE)

VARIABLES tid, l, S, verdict, at, vop, vph
vars == <<tid, l, S, verdict, at, vop, vph>>

Tr == Traces[tid]
C == Tr.c
NS == Tr.slots
NE == Len(Tr.ev)

OkTags == {"ok", "frame", "stop"}
WFTrace(tr) == tr.c.n \in 2..8 /\ tr.c.src \in {"file", "pil"} /\ tr.slots \in 1..3

WFEvent(e) ==
  /\ WFOp(e.o)
  /\ Len(e.obs.its) = NS
  /\ e.o.op # "imgseek" => e.o.k \in 1..NS

ItFields == <<"live", "ln", "rp.ok", "rp.cls", "rp.img", "rp.rep", "rp.spec", "rp.cached", "rp.ln">>
ImgFields == <<"tell", "sizeok", "closed">>

\* is field f of slot j (j = NS + 1: the image) observed differently from the model state S2?
Bad(e, S2, j, f) ==
  IF j = NS + 1 THEN e.obs.img[f] # ImgObs(S2)[f]
  ELSE LET ob == e.obs.its[j]
           ex == ItObs(S2.its[j])
       IN CASE f = "live" -> ob.live # ex.live
            [] f = "ln" -> ob.ln # ex.ln
            [] ~ex.live \/ ~ob.live -> FALSE          \* no object: nothing else to compare
            [] f = "rp.ok" -> ~ob.rp.ok
            [] ~ob.rp.ok -> FALSE
            [] f = "rp.cls" -> ob.rp.cls # ex.rp.cls
            [] f = "rp.img" -> ob.rp.img # ex.rp.img
            [] f = "rp.rep" -> ob.rp.rep # ex.rp.rep
            [] f = "rp.spec" -> ex.rp.spec # "any" /\ ob.rp.spec # ex.rp.spec
            [] f = "rp.cached" -> ob.rp.cached # ex.rp.cached
            [] f = "rp.ln" -> ob.rp.ln # ex.rp.ln

FieldsOf(j) == IF j = NS + 1 THEN ImgFields ELSE ItFields
\* the operation's own iterator first, then the other iterators, then the image
Rank(e, j, i) == (IF e.o.op # "imgseek" /\ j = e.o.k THEN 0 ELSE j) * 100 + i
BadSet(e, S2) == {p \in UNION {{<<j, i>> : i \in 1..Len(FieldsOf(j))} : j \in 1..(NS + 1)} :
                    Bad(e, S2, p[1], FieldsOf(p[1])[p[2]])}
FirstBad(e, S2) ==
  LET bs == BadSet(e, S2) IN
  IF bs = {} THEN <<0, "">>
  ELSE LET p == CHOOSE q \in bs : \A r \in bs : Rank(e, q[1], q[2]) <= Rank(e, r[1], r[2])
       IN <<p[1], FieldsOf(p[1])[p[2]]>>

FieldName(f) ==
  CASE f = "live" -> "object-existence" [] f = "ln" -> "loop_no" [] f = "rp.ok" -> "repr-format"
    [] f = "rp.cls" -> "repr-class" [] f = "rp.img" -> "repr-image" [] f = "rp.rep" -> "repr-repeat"
    [] f = "rp.spec" -> "repr-format_spec" [] f = "rp.cached" -> "repr-cached" [] f = "rp.ln" -> "repr-loop_no"
    [] f = "tell" -> "image-frame-number" [] f = "sizeok" -> "image-size" [] f = "closed" -> "image-finalized"

PhaseOf(S1, o) == IF o.op = "imgseek" \/ o.k \notin DOMAIN S1.its THEN "-" ELSE S1.its[o.k].ph

\* first failing clause of event e in state S1 (S2 = the model's next state)
Clause(e, S1, S2) ==
  LET o == e.o
      r == Step(C, S1, o)
      acc == r.res \cap OkTags # {}
      fb == FirstBad(e, S2)
  IN
  IF e.res \notin r.res THEN
    IF e.res \in OkTags /\ ~acc THEN
      (IF o.op = "setln" THEN "read-only-attribute-written"
       ELSE IF o.op = "seek" /\ PosErrs(C, o.a) = {} THEN "seek-accepted-outside-iteration"
       ELSE "invalid-argument-accepted")
    ELSE IF e.res \in OkTags THEN
      (IF e.res = "stop" THEN "stopped-early"
       ELSE IF e.res = "frame" THEN "yielded-after-the-end"
       ELSE "wrong-result-" \o e.res)
    ELSE IF acc THEN "valid-operation-rejected-" \o e.res
    ELSE "wrong-exception-class-" \o e.res
  ELSE IF e.unr # 0 THEN "exception-escaped-a-finalizer"
  ELSE IF e.ret # r.ret THEN (IF o.op = "iter" THEN "iter-did-not-return-self" ELSE "wrong-return-value")
  ELSE IF e.frame # r.frame THEN (IF e.frame = -2 THEN "unrecognisable-frame" ELSE "wrong-frame")
  ELSE IF e.rend \notin r.rend THEN
    (IF o.op # "next" THEN "rendered-outside-next"
     ELSE IF e.rend = 0 THEN "frame-not-rendered-although-not-cached"
     ELSE IF r.rend = {0} THEN "cached-frame-rendered-again"
     ELSE "rendered-more-than-one-frame")
  ELSE IF e.opens \notin r.opens[C.src] THEN
    (IF o.op = "new" /\ ~acc THEN "rejected-construction-opened-the-source" ELSE "source-opened-unexpectedly")
  ELSE IF fb[1] = 0 THEN "ok"
  ELSE IF fb[1] <= NS /\ (o.op = "imgseek" \/ fb[1] # o.k) THEN "other-iterator-changed-" \o FieldName(fb[2])
  ELSE IF ~acc THEN "rejected-operation-changed-" \o FieldName(fb[2])
  ELSE "wrong-" \o FieldName(fb[2])

Init ==
  /\ tid \in 1..Len(Traces)
  /\ l = 0
  /\ S = State0(1..Traces[tid].slots)
  /\ verdict = IF WFTrace(Traces[tid]) THEN "ok" ELSE "unsupported-trace"
  /\ at = 0
  /\ vop = "" /\ vph = ""

Step_ ==
  /\ l < NE
  /\ l' = l + 1
  /\ LET e == Tr.ev[l + 1]
         wf == verdict # "unsupported-trace" /\ WFEvent(e)
         usable == wf /\ Enabled(C, S, e.o)
         S2 == IF usable THEN Apply(C, S, e.o) ELSE S
         v == IF verdict # "ok" THEN verdict
              ELSE IF ~wf THEN "unsupported-event"
              ELSE IF ~usable THEN "unsupported-operation-in-this-phase"
              ELSE Clause(e, S, S2)
         first == verdict = "ok" /\ v # "ok"
     IN /\ S' = S2
        /\ verdict' = v
        /\ at' = IF first THEN l + 1 ELSE at
        /\ vop' = IF first THEN e.o.op ELSE vop
        /\ vph' = IF first /\ wf THEN PhaseOf(S, e.o) ELSE vph
  /\ UNCHANGED tid

Finish ==
  /\ l = NE
  /\ l' = NE + 1
  /\ UNCHANGED <<tid, S, verdict, at, vop, vph>>

Next == Step_ \/ Finish
Spec == Init /\ [][Next]_vars

Done == l = NE + 1
Report ==
  Done => PrintT(<<"VERDICT", ToJson([tid |-> tid, verdict |-> verdict, at |-> at, op |-> vop, ph |-> vph,
                                      events |-> NE, judged |-> IF verdict = "ok" THEN NE ELSE at])>>)
=============================================================================
