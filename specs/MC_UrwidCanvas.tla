---------------------------- MODULE MC_UrwidCanvas ----------------------------
(***************************************************************************)
(* Exhaustive check of the design-level statement of C17.                  *)
(*                                                                         *)
(* One behaviour = one canvas (chosen in Init) followed by one API         *)
(* operation; `out` holds the operation with its arguments and result, so  *)
(* every dumped transition is self-describing.                             *)
(*                                                                         *)
(*  CalcTrimOp   every (size 1..MaxSize, image 1..size, pad1 0..size-image,  *)
(*               trim1 + trim2 < size).  Dumped as TRIM lines and replayed *)
(*               into the real UrwidImageCanvas._ti_calc_trim.             *)
(*  ContentTextOp every abstract text canvas up to MaxW x MaxH (4x4          *)
(*               alignments as given in the format spec: near / mid / far  *)
(*               / absent per axis, every image size, every colour-run     *)
(*               pattern)                                                  *)
(*               and every sub-rectangle.                                  *)
(*  ContentGfxOp  the same for the graphics branch.                         *)
(***************************************************************************)
EXTENDS UrwidCanvas, Json

CONSTANTS MaxSize, MaxW, MaxH, Colours

VARIABLES ax, cv, out
vars == <<ax, cv, out>>

NoAxis == [size |-> 0, image |-> 0, pad1 |-> 0, pad2 |-> 0]
NoCanvas == [W |-> 0, H |-> 0, iw |-> 0, ih |-> 0, ha |-> "", va |-> "", pat |-> <<>>]
NoOp == [op |-> "render"]

\* every alignment a format spec can give for one axis, INCLUDING none at all ("absent")
Aligns == AlignValues

\* alignments only differ when there is padding to distribute
AlignsFor(size, image) == IF image = size THEN {"near"} ELSE Aligns

\* symmetry: the first colour is 0 (default colours) or 1
Patterns(iw) == {p \in [1..iw -> Colours] : p[1] \in {0, 1}}

InitAxis ==
  /\ cv = NoCanvas
  /\ \E s \in 1..MaxSize : \E im \in 1..s : \E p \in 0..(s - im) :
       ax = [size |-> s, image |-> im, pad1 |-> p, pad2 |-> s - im - p]

InitCanvas ==
  /\ ax = NoAxis
  /\ \E w \in 1..MaxW, h \in 1..MaxH : \E iw \in 1..w, ih \in 1..h :
       \E ha \in AlignsFor(w, iw), va \in AlignsFor(h, ih), pat \in Patterns(iw) :
         cv = [W |-> w, H |-> h, iw |-> iw, ih |-> ih, ha |-> ha, va |-> va, pat |-> pat]

Init == out = NoOp /\ (InitAxis \/ InitCanvas)

CalcTrimOp ==
  /\ out.op = "render" /\ ax # NoAxis
  /\ \E t1 \in 0..(ax.size - 1), t2 \in 0..(ax.size - 1) :
       /\ t1 + t2 < ax.size
       /\ out' = [op |-> "calc_trim", size |-> ax.size, image |-> ax.image, trim1 |-> t1,
                  pad1 |-> ax.pad1, trim2 |-> t2, pad2 |-> ax.pad2,
                  res |-> CalcTrim(ax.size, ax.image, t1, ax.pad1, t2, ax.pad2)]
  /\ UNCHANGED <<ax, cv>>

Rects(c) ==
  {[tl |-> tl, tt |-> tt, cols |-> cols, rows |-> rows] :
     tl \in 0..(c.W - 1), tt \in 0..(c.H - 1), cols \in 1..c.W, rows \in 1..c.H}

RectOK(c, r) == r.tl + r.cols <= c.W /\ r.tt + r.rows <= c.H

ContentTextOp ==
  /\ out.op = "render" /\ cv # NoCanvas
  /\ \E r \in Rects(cv) :
       /\ RectOK(cv, r)
       /\ out' = [op |-> "content_text", rect |-> r]
  /\ UNCHANGED <<ax, cv>>

ContentGfxOp ==
  /\ out.op = "render" /\ cv # NoCanvas
  /\ cv.pat = Rep(0, cv.iw)               \* colours play no role here: one pattern suffices
  /\ \E r \in Rects(cv) :
       /\ RectOK(cv, r)
       /\ out' = [op |-> "content_gfx", rect |-> r]
  /\ UNCHANGED <<ax, cv>>

Next == CalcTrimOp \/ ContentTextOp \/ ContentGfxOp
Spec == Init /\ [][Next]_vars

(* ---- properties ---- *)

TrimIsCrop ==
  out.op = "calc_trim" =>
    TrimEqualsCut(out.size, out.image, out.trim1, out.pad1, out.trim2, out.pad2)

ContentIsCrop ==
  out.op = "content_text" =>
    ContentShowsCrop(cv, out.rect.tl, out.rect.tt, out.rect.cols, out.rect.rows)

ColoursNeverBleed ==
  out.op = "content_text" =>
    ContentNoBleed(cv, out.rect.tl, out.rect.tt, out.rect.cols, out.rect.rows)

GfxVerticalSelectsHorizontalBlanks ==
  out.op = "content_gfx" =>
    ContentGfx(cv, out.rect.tl, out.rect.tt, out.rect.cols, out.rect.rows)
      = GfxExpected(cv, out.rect.tl, out.rect.tt, out.rect.cols, out.rect.rows)

(* ---- dump for the spec -> code replay (run with -workers 1) ---- *)
Dump == out'.op = "calc_trim" => PrintT(<<"TRIM", ToJson(out')>>)

\* the alignment universe of the model: the driver must exercise every pair of it on real
\* canvases (accepted, horizontally trimmed, coloured traces), else the run is vacuous
ASSUME PrintT(<<"ALIGNS", ToJson([h |-> Aligns, v |-> Aligns])>>)
=============================================================================
