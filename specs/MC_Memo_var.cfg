SPECIFICATION Spec
CONSTANTS
  NT = 2
  Prog <- SmallProg
  Kind = "cached"
  Sizes = {1, 2, 3}
  MaxResize = 0
  Variant <- EnvVariant
INVARIANT BodyOnce
INVARIANT BodyExclusive
VIEW View
CHECK_DEADLOCK FALSE
