------------------------------ MODULE MC_Memo ------------------------------
(* Configurations of Memo (C15): MC_Memo_cached.cfg (3 threads x 2 argument tuples with an      *)
(* invalidation), MC_Memo_tsc.cfg (3 threads, terminal resized up to twice), both with the edge *)
(* dump for the replay under env/sched.py; MC_Memo_var.cfg = body outside the lock.             *)
EXTENDS Memo, Json, IOUtils

C(a) == [k |-> "call", a |-> a]
Inv == [k |-> "inv", a |-> 0]

CachedProg == << <<C(1), C(2)>>, <<C(1), Inv, C(1)>>, <<C(2), C(1)>> >>
TscProg == << <<C(1), C(1)>>, <<C(1), C(1)>>, <<C(1)>> >>
SmallProg == << <<C(1), C(2)>>, <<C(1), C(1)>> >>

EnvVariant == IF "VARIANT" \in DOMAIN IOEnv THEN IOEnv.VARIANT ELSE "code"

ASSUME PrintT(<<"CONFIG", ToJson([nt |-> NT, prog |-> Prog, kind |-> Kind])>>)

Dump ==
  PrintT(<<"EDGE", ToJson([from |-> View, to |-> View', lvl |-> TLCGet("level"),
                          op |-> [t |-> out'.t, act |-> out'.act, res |-> out'.res,
                                  inb |-> InBodySet', blk |-> BlockedSet', nbody |-> nbody']])>>)
=============================================================================
