"""Code -> spec for RenderIter.tla: seeded random histories on the real RenderIterator,
recorded event by event and validated by TLC against Trace_RenderIter.tla."""

from __future__ import annotations

import random

from . import iterkit, tlc
from .core import Report

CFG = """SPECIFICATION TSpec
CONSTANTS
  N = {n}
  K = {k}
  LoopsSet = {{1}}
  CacheSet = {{TRUE}}
  OwnSet = {{"iter"}}
  Sizes = {{1}}
  Durs = {{1}}
  ArgsSet = {{"a0"}}
  Pads = {{1}}
  SeekOffs = {{0}}
  TW = 8
  TH = 6
  Terms = {{}}
  MaxDepth = 1
INVARIANT Report
CHECK_DEADLOCK FALSE
"""


_last_pad = [None]


def gen_padding(rng):
    p = _gen_padding(rng)
    prev = _last_pad[0]
    if prev and rng.random() < 0.35:
        # same padded size as the previous padding, different margins / alignment
        if prev["kind"] == "aligned":
            p = dict(prev, ha=rng.randrange(3), va=rng.randrange(3))
        else:
            tot_w, tot_h = prev["l"] + prev["r"], prev["t"] + prev["b"]
            l, t = rng.randrange(tot_w + 1), rng.randrange(tot_h + 1)
            p = {"kind": "exact", "l": l, "t": t, "r": tot_w - l, "b": tot_h - t}
    _last_pad[0] = p
    return p


def _gen_padding(rng):
    roll = rng.random()
    if roll < 0.3:
        return {"kind": "exact", "l": rng.randrange(3), "t": rng.randrange(3), "r": rng.randrange(3), "b": rng.randrange(3)}
    if roll < 0.4:
        return {"kind": "exact", "l": 0, "t": 0, "r": 0, "b": 0}
    if roll < 0.8:
        return {"kind": "aligned", "w": rng.randrange(1, 10), "h": rng.randrange(1, 8), "ha": rng.randrange(3), "va": rng.randrange(3)}
    return {"kind": "aligned", "w": -rng.randrange(0, 4), "h": rng.choice([-3, -2, -1, 0, 3]), "ha": rng.randrange(3), "va": rng.randrange(3)}


_resized = [False]


def gen_op(rng, n, closed):
    roll = rng.random()
    if _resized[0] and rng.random() < 0.6:
        # a set_padding() after a resize must see the NEW terminal size
        _resized[0] = False
        return {"name": "set_padding", "v": {"kind": "aligned", "w": -rng.randrange(0, 4), "h": rng.choice([-3, -2, -1, 0]),
                                             "ha": rng.randrange(3), "va": rng.randrange(3)}}
    if rng.random() < 0.05:
        _resized[0] = True
        return {"name": "resize", "v": rng.choice([[8, 6], [5, 4], [12, 3], [3, 9]])}
    if n and rng.random() < 0.12:
        # revisit: go back to an early frame (cached iterators must notice changed settings)
        return {"name": "seek", "off": rng.randrange(0, min(n, 3)), "whence": "START"}
    if roll < 0.45:
        return {"name": "next"}
    if roll < 0.65:
        span = (n or 4) + 2
        off = rng.randrange(-span, span + 1) if rng.random() < 0.93 else rng.choice([-10**6, 10**6, 2**30])
        return {"name": "seek", "off": off, "whence": rng.choice(["START", "CURRENT", "END"])}
    if roll < 0.73:
        return {"name": "set_frame_duration", "v": rng.choice([1, 1, 50, 70, 1000, iterkit.DYN, iterkit.DYN, 0, -5])}
    if roll < 0.81:
        return {"name": "set_padding", "v": gen_padding(rng)}
    if roll < 0.87:
        return {"name": "set_render_args", "v": rng.choice(["a0", "a1", "a2", "a3", "a2", "a3", "incompatible", "child", "a4", "a5", "a4"])}
    if roll < 0.94:
        return {"name": "set_render_size", "v": [rng.randrange(1, 5), rng.randrange(1, 4)]}
    if roll < 0.96:
        return {"name": "next_fails", "kind": rng.choice(["exc", "stop"])}
    if roll < 0.975:
        return {"name": "next_reclose"}
    if roll < 0.99:
        return {"name": "close"}
    return {"name": "drop"}


def straight_scripts():
    """next() only, to exhaustion and two calls beyond: "exactly loops x frame_count frames are
    produced absent seeks" (MC_RenderIterStraight.tla is the design-level statement)."""
    out = []
    for n in (2, 3, 5, 12):
        for loops in (1, 2, 3):
            for cache in ({"kind": "bool", "b": True, "n": 0}, {"kind": "bool", "b": False, "n": 0},
                          {"kind": "int", "b": False, "n": n - 1}, {"kind": "int", "b": False, "n": n}):
                for own in ("iter", "caller"):
                    init = {"n": n, "k": 0, "loops": loops, "cache": cache, "own": own}
                    out.append((init, [{"name": "next"}] * (n * loops + 2)))
    for k in (3, 6):
        for own in ("iter", "caller"):
            init = {"n": 0, "k": k, "loops": 1, "cache": {"kind": "bool", "b": False, "n": 0}, "own": own}
            out.append((init, [{"name": "next"}] * (k + 2)))
    return out


def skip_scripts():
    """A cached frame that is NOT visited for several loops after a settings change (every other
    frame is) and then visited: it must come out with the settings current at that time.  The
    iterator may not assume that "the rest of this loop plus one full loop" revalidates every
    cached frame - seeks can skip one for as long as they like."""
    out = []
    changes = [{"name": "set_render_size", "v": [3, 2]}, {"name": "set_frame_duration", "v": 70},
               {"name": "set_render_args", "v": "a1"}, {"name": "set_padding", "v": {"kind": "exact", "l": 1, "t": 0, "r": 0, "b": 1}}]
    nx = {"name": "next"}
    for n in (3, 4):
        for f in range(1, n - 1):
            for loops in (-1, 6):
                for ch in changes:
                    for skipped_loops in (2, 3):
                        ops = [nx] * n          # loop 1 fills the cache
                        ops += [nx] * f + [ch, {"name": "seek", "off": f + 1, "whence": "START"}]
                        ops += [nx] * (n - f - 1)                      # rest of loop 2 without f
                        for _ in range(skipped_loops - 1):            # whole loops without f
                            ops += [nx] * f + [{"name": "seek", "off": f + 1, "whence": "START"}] + [nx] * (n - f - 1)
                        ops += [nx] * n                                # a loop that visits f again
                        init = {"n": n, "k": 0, "loops": loops, "cache": {"kind": "bool", "b": True, "n": 0}, "own": "iter"}
                        out.append((init, ops))
    return out


def args_value_scripts():
    """Render-argument VALUES in the cache key (RenderIter.tla: ArgsUnhashable): a frame is cached
    under X, then set_render_args(Y) is called with a NEW object - Y equal to X (the cache entry
    stays valid: no second render) or different (it must be rendered again) - for hashable,
    hash-colliding and UNHASHABLE values, and the frame is revisited by a seek resp. by the next
    loop.  The cached iterator must do what the value semantics say - in particular it must
    never raise where its uncached twin yields."""
    out = []
    nx = {"name": "next"}
    vals = ["a0", "a2", "a3", "a4", "a5"]
    for n in (2, 3):
        for x in vals:
            for y in vals:
                if "a4" not in (x, y) and "a5" not in (x, y) and x != y:
                    continue  # hashable-only pairs: the random histories and config B have them
                for how in ("seek", "loop"):
                    ops = [{"name": "set_render_args", "v": x}, nx, nx]
                    ops += [{"name": "set_render_args", "v": y}]
                    ops += [{"name": "seek", "off": 0, "whence": "START"}] if how == "seek" else [nx] * (n - 2)
                    ops += [nx] * n + [{"name": "set_render_args", "v": x}] + [nx] * n
                    init = {"n": n, "k": 0, "loops": -1, "cache": {"kind": "bool", "b": True, "n": 0}, "own": "iter"}
                    out.append((init, ops))
    return out


def record(rng: random.Random, pair: bool, script=None):
    """Run one random history on the real code; returns the trace record (or a direct
    violation tuple if the output cannot even be decoded)."""
    if script is not None:
        return _record(rng, pair, script[0], list(script[1]))
    indefinite = rng.random() < 0.2
    n = 0 if indefinite else rng.choice([2, 2, 3, 3, 5, 12])
    k = rng.choice([3, 6]) if indefinite else 0
    loops = rng.choice([-1, 1, 2, 3])
    if rng.random() < 0.5:
        cache = {"kind": "bool", "b": rng.random() < 0.6, "n": 0}
    else:
        cache = {"kind": "int", "b": False, "n": max(1, (n or 2) + rng.choice([-1, 0, 1, 50]))}
    own = rng.choice(["iter", "iter", "caller"])
    init = {"n": n, "k": k, "loops": loops, "cache": cache, "own": own}
    return _record(rng, pair, init, None)


def _record(rng, pair, init, ops):
    n, k = init["n"], init["k"]
    cache = init["cache"]
    iterkit.set_terminal()
    _resized[0] = False
    it = _make(init, cache_arg=cache)
    shadow = _make(init, cache_arg={"kind": "bool", "b": False, "n": 0}) if pair else None
    events = []
    length = rng.randrange(5, 41) if ops is None else len(ops)
    closed_for = 0
    for i in range(length):
        op = gen_op(rng, n, closed_for > 0) if ops is None else dict(ops[i])
        if op["name"] in ("next_fails", "next_reclose"):
            # only meaningful where a render will happen; the probe tells us afterwards
            before = len(it.probe.renders)
        real = it.apply(op)
        if op["name"] in ("next_fails", "next_reclose") and len(it.probe.renders) == before:
            op = {"name": "next"}  # nothing was rendered: the injected failure did not fire
            it.probe.fail_next = None
            real.pop("inner", None)
            if shadow is not None:
                shadow.probe.fail_next = None
        if real.get("res") == "frame" and not isinstance(real.get("dur"), int):
            return ("decode", init, events, op, dict(real, decode=f"Frame.duration is {real['dur']}, not an int"))
        if "decode" in real:
            return ("decode", init, events, op, real)
        r2 = real
        if shadow is not None:
            r2 = shadow.apply(op)
            if "decode" in r2:
                return ("decode", init, events, op, r2)
        ev = {
            "op": op,
            "r": _norm(real),
            "r2": _norm(r2),
            "paired": shadow is not None,
            "loop": it.loop() if not it.dropped else 0,
            "fin": it.fin(),
            "tell": it.probe.tell(),
            "stale": it.finalized_data_used(),
        }
        events.append(ev)
        if it.dropped:
            break
        if real["res"] in ("stop", "stop-finalized", "FinalizedIteratorError") or op["name"] == "close":
            closed_for += 1
            if closed_for > 3 and ops is None:
                break
    return {"n": n, "k": k, "init": init, "tell0": it.tell0, "events": events}


def _norm(r: dict) -> dict:
    out = {"res": r["res"]}
    if r["res"] == "frame":
        for f in ("num", "dur", "size", "margins", "psize", "args", "seek", "rendered"):
            out[f] = r[f]
        out["inner"] = r.get("inner", "")
    return out


def _make(init, cache_arg):
    """RealIter with an explicit cache argument (bool or int)."""
    n = init["n"]
    cached_flag = False
    if n:
        cached_flag = cache_arg["b"] if cache_arg["kind"] == "bool" else n <= cache_arg["n"]
    it = iterkit.RealIter.__new__(iterkit.RealIter)
    _construct(it, init, cache_arg["b"] if cache_arg["kind"] == "bool" else cache_arg["n"])
    return it


def _construct(self, init, cache):
    from term_image.padding import ExactPadding
    from term_image.render import RenderIterator

    C = iterkit.classes()
    self.C = C
    n = init["n"]
    self.definite = n > 0
    _construct.count = getattr(_construct, "count", 0) + 1
    self.probe = C["PlainProbe" if _construct.count % 4 == 3 else "Probe"](n, init["k"])
    if self.definite:
        self.probe.seek(1)
    self.tell0 = self.probe.tell()
    self.own = init["own"]
    self.data = self.probe._get_render_data_(iteration=True)
    self.it = RenderIterator._from_render_data_(
        self.probe, self.data, None, ExactPadding(), init["loops"], cache, finalize=self.own != "caller"
    )
    self.data_id = id(self.data)
    self.dropped = False
    # per-object finalize log (several iterators live at once in paired runs)
    self._fin_base = C["Probe"].finalize_log.get(self.data_id, 0)


def run(rep: Report, n_traces: int, pair: bool = False):
    rng = random.Random(rep.seed * 104729 + 8)
    groups: dict[tuple[int, int], list] = {}
    keep = []  # keep iterators' data alive so that id() stays unique within the batch
    scripts = straight_scripts() + skip_scripts() + args_value_scripts()
    rep.extra["straight_histories"] = len(scripts)
    for j in range(n_traces + len(scripts)):
        tr = record(rng, pair, scripts[j] if j < len(scripts) else None)
        rep.evaluations += 1
        if isinstance(tr, tuple):
            _, init, events, op, real = tr
            rep.violation(
                f"RenderIterator:{op['name']}:frame-output",
                f"frame output cannot be decoded: {real['decode']}; init={init}, after {len(events)} events",
                {"kind": "trace", "trace": {"init": init, "events": events, "n": init["n"], "k": init["k"]}},
            )
            continue
        groups.setdefault((tr["n"], tr["k"]), []).append(tr)
    gen = tlc.OUT / "cfg" / str(__import__("os").getpid())
    gen.mkdir(parents=True, exist_ok=True)
    for (n, k), traces in sorted(groups.items()):
        cfg = gen / f"Trace_RI_{n}_{k}.cfg"
        cfg.write_text(CFG.format(n=n, k=k))
        verdicts, st, trn = tlc.validate_traces(
            "Trace_RenderIter", str(cfg), traces, batch=300, parallel=4, workers=2, name=f"ri{n}{k}"
        )
        rep.states += st
        rep.transitions += trn
        rep.traces_validated += len(traces)
        for tr, v in zip(traces, verdicts):
            rep.distinct.add(("trace", n, k, len(tr["events"]), tuple(e["op"]["name"] for e in tr["events"][:12])))
            if v["verdict"] != "ok":
                if v["verdict"].startswith("machinery"):
                    raise tlc.MachineryError(v["verdict"])
                clause = ":".join(v["verdict"].split(":")[:2]).split(" ")[0]
                upto = tr["events"][: v["at"]]
                rep.violation(
                    f"RenderIterator:{clause}",
                    f"{v['verdict']} at event {v['at']}; N={n} K={k} init={tr['init']}; history: "
                    + " ; ".join(_fmt(e["op"]) for e in upto),
                    {"kind": "trace", "trace": dict(tr, events=upto)},
                )
        if traces:
            t0 = traces[0]
            rep.sample({"N": n, "K": k, "init": t0["init"], "history": [_fmt(e["op"]) for e in t0["events"]][:16]})


def _fmt(op):
    return op["name"] + "(" + ",".join(f"{k}={v}" for k, v in op.items() if k != "name") + ")"


def replay_scenario(rep: Report, sc: dict):
    """Re-run the recorded operations on the real code and validate the fresh trace."""
    tr = sc["trace"]
    init = tr["init"]
    it = _make(init, init["cache"])
    events = []
    for e in tr["events"]:
        real = it.apply(e["op"])
        events.append(
            {"op": e["op"], "r": _norm(real) if "decode" not in real else {"res": "undecodable"},
             "r2": _norm(real) if "decode" not in real else {"res": "undecodable"}, "paired": False,
             "loop": it.loop() if not it.dropped else 0, "fin": it.fin(), "tell": it.probe.tell(),
             "stale": it.finalized_data_used()}
        )
    fresh = {"n": tr["n"], "k": tr["k"], "init": init, "tell0": it.tell0, "events": events}
    gen = tlc.OUT / "cfg" / str(__import__("os").getpid())
    gen.mkdir(parents=True, exist_ok=True)
    cfg = gen / f"Trace_RI_{tr['n']}_{tr['k']}.cfg"
    cfg.write_text(CFG.format(n=tr["n"], k=tr["k"]))
    verdicts, st, trn = tlc.validate_traces("Trace_RenderIter", str(cfg), [fresh], workers=1, parallel=1)
    rep.states += st
    rep.transitions += trn
    rep.traces_validated += 1
    rep.evaluations += 1
    v = verdicts[0]
    if v["verdict"] != "ok":
        clause = ":".join(v["verdict"].split(":")[:2]).split(" ")[0]
        rep.violation(f"RenderIterator:{clause}", f"{v['verdict']} at event {v['at']}", sc)
