SPECIFICATION Spec
CONSTANTS
  NT = 3
  Prog <- CachedProg
  Kind = "cached"
  Sizes = {1, 2, 3}
  MaxResize = 0
  MaxFail = 1
  KwClass <- KwClasses
  Variant = "code"
INVARIANT BodyOnce
INVARIANT BodyExclusive
INVARIANT ValueFresh
VIEW View
CHECK_DEADLOCK FALSE
ACTION_CONSTRAINT Dump
