SPECIFICATION Spec
CONSTANTS
  Bits = 3
  NSlots = 7
VIEW View
INVARIANT DistinctInRange
INVARIANT FreeDisjoint
INVARIANT ErrorOnlyWhenFull
INVARIANT NeverMoreThanCapacity
INVARIANT NothingLost
CHECK_DEADLOCK FALSE
