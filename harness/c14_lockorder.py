"""Driver side of the C14 lock-order check (specs/LockOrder.tla)."""

from __future__ import annotations

import itertools
import json
import uuid
from collections import deque

from . import c14_real, tlc
from .tlc import MachineryError

WORKER = "harness.c14_lockorder_worker"


def record(src: str) -> dict:
    p, od = c14_real.launch_sync(src, module=WORKER, extra={"mode": "record"})
    return c14_real.collect_sync(p, od, timeout=120)


def collapse(steps):
    """Outermost acquire / release per lock (re-entrant re-acquisitions by the owner never
    wait); each kept step remembers its index in the recorded program."""
    depth: dict = {}
    out = []
    for i, (op, l) in enumerate(steps):
        if op == "acq":
            depth[l] = depth.get(l, 0) + 1
            if depth[l] == 1:
                out.append({"op": "acq", "l": l, "raw": i})
        else:
            depth[l] -= 1
            if depth[l] == 0:
                out.append({"op": "rel", "l": l, "raw": i})
            if depth[l] < 0:
                raise MachineryError("recorded program releases a lock it does not hold")
    if any(depth.values()):
        raise MachineryError("recorded program ends holding a lock")
    return out


def guard(rec: dict):
    """Is the instrumentation alive?  (else: exit 2, never a verdict)"""
    names = rec["locks"]
    progs = rec["programs"]
    tty = rec["tty"]
    if not any(s[1] == tty for s in progs["query_terminal"]["steps"]):
        raise MachineryError("lock-order: the terminal lock does not appear in query_terminal's program")
    cache_ids = {int(k) for k, v in names.items() if v.startswith("cache:")}
    for n in ("get_fg_bg_colors[cold]", "get_fg_bg_colors[warm]", "get_terminal_name_version[warm]",
              "TextImage._is_on_kitty[warm]"):
        if not any(s[1] in cache_ids for s in progs[n]["steps"]):
            raise MachineryError(f"lock-order: no cache lock in the program of {n} (instrumentation lost)")
    if len({s[1] for p in progs.values() for s in p["steps"]}) < 3:
        raise MachineryError("lock-order: fewer than three distinct locks recorded (instrumentation lost)")
    draw = progs["UrwidImageScreen.draw_screen[image canvas, facts warm]"]["steps"]
    depth: dict = {}
    reads_under_tty = False
    for op, l in draw:
        if op == "acq":
            if l in cache_ids and depth.get(tty, 0) > 0:
                reads_under_tty = True
            depth[l] = depth.get(l, 0) + 1
        else:
            depth[l] = depth.get(l, 0) - 1
    if not reads_under_tty:
        raise MachineryError("lock-order: draw_screen never reads a memoized fact under the terminal lock (vacuous)")


def shortest_schedule(progs: list, target_pc: list) -> list | None:
    """A schedule (thread numbers) that drives the collapsed programs to `target_pc`."""
    n = len(progs)
    start = (tuple([0] * n), ())
    goal = tuple(p - 1 for p in target_pc)

    def owners(pcs):
        own = {}
        for k in range(n):
            for st in progs[k][: pcs[k]]:
                if st["op"] == "acq":
                    own[st["l"]] = k
                else:
                    own.pop(st["l"], None)
        return own

    prev = {start[0]: None}
    dq = deque([start[0]])
    while dq:
        pcs = dq.popleft()
        if pcs == goal:
            sched = []
            while prev[pcs] is not None:
                pcs, k = prev[pcs]
                sched.append(k + 1)
            return sched[::-1]
        own = owners(pcs)
        for k in range(n):
            if pcs[k] >= len(progs[k]):
                continue
            st = progs[k][pcs[k]]
            if st["op"] == "acq" and own.get(st["l"], k) != k:
                continue
            nxt = pcs[:k] + (pcs[k] + 1,) + pcs[k + 1:]
            if nxt not in prev:
                prev[nxt] = (pcs, k)
                dq.append(nxt)
    return None


def analyse(rec: dict, triples: bool = False, seed: int = 0) -> dict:
    """TLC over every combination of the law, the observation pair and a tampered program."""
    names = sorted(rec["programs"])
    coll = {n: collapse(rec["programs"][n]["steps"]) for n in names}
    law = [n for n in names if rec["programs"][n]["role"] == "law"]
    obs = [n for n in names if rec["programs"][n]["role"] == "observation"]
    progs = [{"name": n, "steps": [{"op": s["op"], "l": s["l"]} for s in coll[n]]} for n in names]
    idx = {n: i + 1 for i, n in enumerate(names)}
    combos, kinds = [], []
    for a, b in itertools.combinations_with_replacement(law, 2):
        combos.append([idx[a], idx[b]])
        kinds.append("law")
    if triples:
        import random

        tri = list(itertools.combinations(law, 3))
        random.Random(seed).shuffle(tri)
        for t in tri[:120]:
            combos.append([idx[x] for x in t])
            kinds.append("law")
    for a, b in itertools.product(obs, obs):
        if a < b:
            combos.append([idx[a], idx[b]])
            kinds.append("observation")
    # tampered program (guard): draw_screen reading the colours' cache lock instead of the name's
    cache = {v: int(k) for k, v in rec["locks"].items()}
    draw = "UrwidImageScreen.draw_screen[image canvas, facts warm]"
    name_l = next((s["l"] for s in coll["get_terminal_name_version[warm]"] if s["op"] == "acq"), None)
    fg_l = next((s["l"] for s in coll["get_fg_bg_colors[warm]"] if s["op"] == "acq"), None)
    tam = None
    if name_l is not None and fg_l is not None and name_l != fg_l:
        progs.append({"name": "TAMPERED " + draw,
                      "steps": [{"op": s["op"], "l": fg_l if s["l"] == name_l else s["l"]} for s in coll[draw]]})
        combos.append([len(progs), idx["get_fg_bg_colors[cold]"]])
        kinds.append("tampered")
        tam = len(combos)
    data = {"progs": progs, "combos": combos, "nlocks": max(int(k) for k in rec["locks"])}
    path = tlc.write_json(tlc.OUT / "traces" / f"lockorder-{uuid.uuid4().hex[:8]}.json", data)
    try:
        res = tlc.run("LockOrder", "LockOrder.cfg", workers=4, timeout=600, env={"TRACE_FILE": str(path)}, deadlock=False)
    finally:
        path.unlink(missing_ok=True)
    if res.violated:
        raise MachineryError(f"LockOrder.tla itself failed: {res.error_text[:1500]}")
    dead: dict = {}
    for d in res.tagged("DEADLOCK"):
        dead.setdefault(d["cid"], d)
    finished = {d["cid"] for d in res.tagged("FINISHED")}
    out = {"res": res, "deadlocks": [], "observations": [], "combos": len(combos), "law": kinds.count("law"),
           "tamper_reported": None if tam is None else tam in dead, "coll": coll, "names": names}
    for c in range(1, len(combos) + 1):
        if c not in dead and c not in finished:
            raise MachineryError(f"lock-order: combination {c} got neither a FINISHED nor a DEADLOCK line")
        if c in dead and kinds[c - 1] != "tampered":
            members = [progs[i - 1]["name"] for i in combos[c - 1]]
            cprogs = [coll[m] for m in members]
            pc = dead[c]["pc"]
            sched = shortest_schedule(cprogs, pc)
            if sched is None:
                raise MachineryError(f"lock-order: no schedule reaches the dead-lock TLC reported for {members}")
            item = {"members": members, "pc": pc, "waits": dead[c]["waits"], "schedule": sched,
                    "locks": {k: rec["locks"][str(k)] for k in set(dead[c]["waits"]) if k}}
            (out["deadlocks"] if kinds[c - 1] == "law" else out["observations"]).append(item)
    return out


def confirm(src: str, rec: dict, item: dict, coll: dict) -> dict:
    """Replay a dead-lock schedule (pairs only) on the real code under the cooperative scheduler."""
    a, b = item["members"]
    # expand the schedule over collapsed steps to one over recorded lock operations
    raw = [rec["programs"][a]["steps"], rec["programs"][b]["steps"]]
    pos = [0, 0]
    cpos = [0, 0]
    sched = []
    for t in item["schedule"]:
        k = t - 1
        upto = coll[[a, b][k]][cpos[k]]["raw"]
        while pos[k] <= upto:
            sched.append(t)
            pos[k] += 1
        cpos[k] += 1
    # then each thread runs on (re-entrant operations only) to the acquire it is said to wait at
    for k in (0, 1):
        if cpos[k] < len(coll[[a, b][k]]):
            upto = coll[[a, b][k]][cpos[k]]["raw"]
            while pos[k] < upto:
                sched.append(k + 1)
                pos[k] += 1
    p, od = c14_real.launch_sync(src, module=WORKER,
                                 extra={"mode": "confirm", "pair": [a, b], "schedule": sched, "programs": raw})
    return c14_real.collect_sync(p, od, timeout=120)["confirm"]
