"""C20 - the real-code side: a tree of style subclasses under the REAL style classes.

Nothing here judges.  A :class:`World` builds the classes with ``type(...)`` under
``KittyImage`` / ``ITerm2Image``, executes one operation of the model alphabet through the
public API, and reads back what is observable:

* ``forced_support`` / ``jpeg_quality`` / ``read_from_file`` / ``native_anim_max_bytes``:
  the property read at every class and instance;
* the render method (it has no getter): the framing of an ACTUAL render without override -
  number of graphics commands == rendered height -> "lines", == 1 -> "whole" - at every
  instance and, for every class, at a fresh instance of that class; plus the pixel size of the
  image data each command transmits (kitty ``s`` x ``v``; iterm2: size of the decoded payload),
  reported as "WxH" ("mixed:..." if the commands of one render disagree);
* forced support also through its effect: can the class be instantiated while the
  (scripted) terminal supports no graphics protocol.

Values travel as records ``{"t": type tag, "i": int, "s": lower-cased string}`` (the shape
used by specs/StyleSettingsCore.tla); ``show()`` is the compact ``t:value`` form used in
edge dumps.
"""

from __future__ import annotations

import base64
import contextlib
import io
import random

from . import lexer
from .env import stubs
from .tlc import MachineryError

SETTINGS = ("rm", "fs", "jq", "rf", "nb")
LONG = {
    "rm": "render_method",
    "fs": "forced_support",
    "jq": "jpeg_quality",
    "rf": "read_from_file",
    "nb": "native_anim_max_bytes",
    "none": "trace",
}
PROP = {"fs": "forced_support", "jq": "jpeg_quality", "rf": "read_from_file", "nb": "native_anim_max_bytes"}
FAM_SETTINGS = {"kitty": ("rm", "fs"), "iterm2": SETTINGS}
IDENT = {"kitty": "kitty", "iterm2": "iterm2"}
UNSUPPORTED_IDENT = "other"

UNSET = {"t": "unset", "i": 0, "s": ""}
NA = {"t": "na", "i": 0, "s": ""}
SKIP = {"t": "skip", "i": 0, "s": ""}

# environment attributes the stub environment itself rewrites (never style settings)
_ENV_ATTRS = {"_supported", "_TERM", "_TERM_VERSION", "_KITTY_VERSION"}


def rec(t, i=0, s=""):
    return {"t": t, "i": i, "s": s}


def enc(v) -> dict:
    """Python value -> value record (dumb projection)."""
    if isinstance(v, bool):
        return rec("bool", int(v))
    if isinstance(v, int):
        if not -(2**31) < v < 2**31:
            return rec("bigint", 0, str(v))
        return rec("int", v)
    if isinstance(v, str):
        return rec("str", 0, v.lower())
    if v is None:
        return rec("none")
    return rec("other", 0, type(v).__name__)


def show(r: dict) -> str:
    return f"{r['t']}:{r['s'] if r['t'] == 'str' else r['i']}"


def unshow(s: str) -> dict:
    t, _, v = s.partition(":")
    if t == "str":
        return rec("str", 0, v)
    return rec(t, int(v))


def to_python(r: dict, rng: random.Random | None):
    """Value record -> the Python object handed to the API (rng None: canonical spelling)."""
    t = r["t"]
    if t == "int":
        return r["i"]
    if t == "bool":
        return bool(r["i"])
    if t == "str":
        s = r["s"]
        return rng.choice([s, s, s.upper(), s.capitalize()]) if rng else s  # "(case-insensitive)"
    if t == "none":
        return None
    if t == "float":
        return r["i"] + 0.5
    raise MachineryError(f"c20: cannot build a python value from {r}")


_snapshots: dict = {}


def _guarded_classes(base):
    out = []
    for c in base.__mro__:
        if c is object:
            continue
        out.append(c)
        if type(c) not in out and type(c) is not type:
            out.append(type(c))
    for c in list(out):
        if isinstance(c, type) and issubclass(c, type):
            for m in c.__mro__:
                if m not in (type, object) and m not in out:
                    out.append(m)
    return out


def _snapshot(base):
    if base not in _snapshots:
        _snapshots[base] = {c: dict(vars(c)) for c in _guarded_classes(base)}
    return _snapshots[base]


def restore_real_classes(base) -> int:
    """Put the real style class, its bases and metaclasses back exactly as imported.

    Returns the number of attributes that had to be removed / rewritten."""
    n = 0
    for c, snap in _snapshot(base).items():
        for k in list(vars(c)):
            if k in _ENV_ATTRS or k.startswith("_abc_"):
                continue
            if k not in snap:
                type.__delattr__(c, k) if isinstance(c, type) and issubclass(c, type) else delattr_raw(c, k)
                n += 1
            elif vars(c)[k] is not snap[k]:
                setattr_raw(c, k, snap[k])
                n += 1
    return n


def delattr_raw(c, k):
    type.__delattr__(c, k)


def setattr_raw(c, k, v):
    type.__setattr__(c, k, v)


class ForceFailed(Exception):
    """The real classes refused a plain valid *set* while a model state was being re-created."""


class World:
    """One tree of real classes + instances.  Node numbers are the spec's (1-based)."""

    CELL = (2, 4)

    def __init__(self, fam: str, par: list[int], nc: int, wseed: int, geo: dict | None = None,
                 dm: list[int] | None = None, fl: list[int] | None = None, real: list[str] | None = None):
        from PIL import Image
        from term_image.image import BaseImage, GraphicsImage, ITerm2Image, KittyImage

        self.fam = fam
        self.par = list(par)
        self.nc = nc
        self.n = len(par)
        self.rng = random.Random(wseed)
        self.base = {"kitty": KittyImage, "iterm2": ITerm2Image}[fam]
        self.other = {"kitty": ITerm2Image, "iterm2": KittyImage}[fam]
        self.real = list(real) if real else ["style"] + [""] * (self.n - 1)
        self.style_node = self.real.index("style") + 1
        self._restore()
        stubs.set_term(size=(80, 30), cell=self.CELL)
        stubs.set_identity(IDENT[fam])
        if geo is None:  # source smaller / larger than the rendered pixel size, both often
            rw, rh = self.rng.choice([1, 2, 3]), self.rng.choice([2, 2, 3])
            ow, oh = self.rng.choice([(1, 2), (3, 5), (4, 4), (10, 7), (2, 8), (16, 9), (7, 13), (40, 40),
                                      (rw * 2, rh * 4), (self.rng.randint(1, 12), self.rng.randint(1, 12))])
            geo = {"cw": self.CELL[0], "ch": self.CELL[1], "rw": rw, "rh": rh, "ow": ow, "oh": oh}
        if (geo["cw"], geo["ch"]) != self.CELL:
            raise MachineryError(f"c20: geometry {geo} does not use the scripted cell size {self.CELL}")
        self.geo = geo
        self.rw, self.rh = geo["rw"], geo["rh"]
        mode = self.rng.choice(["RGB", "RGB", "RGBA", "L"])
        self.img = Image.new(mode, (geo["ow"], geo["oh"]))
        self.nodes: list = [None] * (self.n + 1)
        self.dm = list(dm) if dm else [0] * self.n
        self.fl = list(fl) if fl else [0] * self.n
        self.metas: list = []
        reals = {"BaseImage": BaseImage, "GraphicsImage": GraphicsImage, "style": self.base, "other": self.other}
        for i in range(1, nc + 1):
            parent = self.nodes[par[i - 1]] if par[i - 1] else None
            if self.real[i - 1]:
                # a REAL library class; its place in the tree must be its real ancestry
                self.nodes[i] = reals[self.real[i - 1]]
                if parent is not None and parent not in self.nodes[i].__bases__:
                    raise MachineryError(f"c20: {self.nodes[i].__name__} is not a direct subclass of {parent.__name__}")
                continue
            name = f"C20{fam.capitalize()}{i}"
            # fl: the class defines __len__ returning 0 -> its instances are falsy objects
            body = {"__len__": lambda self: 0} if self.fl[i - 1] else {}
            if self.dm[i - 1]:
                # class declared with a metaclass derived from its parent's metaclass
                meta = type(f"{name}Meta", (type(parent),), {})
                self.metas.append((meta, set(vars(meta))))
                self.nodes[i] = meta(name, (parent,), body)
            else:
                self.nodes[i] = type(parent)(name, (parent,), body)
        for i in range(nc + 1, self.n + 1):
            self.nodes[i] = self._instance(par[i - 1])
        for i in range(nc + 1, self.n + 1):
            falsy = any(self.fl[c - 1] for c in self._chain(par[i - 1]))
            if bool(self.nodes[i]) == falsy:
                raise MachineryError(f"c20: instance {i} should be {'falsy' if falsy else 'truthy'}")
        self._created = {i: set(vars(self.nodes[i])) for i in range(1, self.n + 1) if not self.real[i - 1]}

    # ----------------------------------------------------------------- helpers
    def _restore(self) -> None:
        restore_real_classes(self.base)
        restore_real_classes(self.other)

    def in_family(self, n: int) -> bool:
        """The style class, a user subclass or an instance (where the style's own settings exist)."""
        return self.style_node in self._chain(n)

    def abstract(self, n: int) -> bool:
        return self.real[n - 1] in ("BaseImage", "GraphicsImage")

    def _chain(self, c: int):
        while c:
            yield c
            c = self.par[c - 1]

    def is_class(self, n: int) -> bool:
        return n <= self.nc

    def _instance(self, cls_no: int):
        return self.nodes[cls_no](self.img, width=self.rw, height=self.rh)

    def clean(self) -> None:
        """Back to 'nothing set anywhere' without re-creating the classes."""
        self._restore()
        for meta, created in self.metas:
            for k in list(vars(meta)):
                if k not in created:
                    delattr_raw(meta, k)
        for i in self._created:
            node = self.nodes[i]
            for k in list(vars(node)):
                if k not in self._created[i] and not k.startswith("_abc_"):
                    if self.is_class(i):
                        delattr_raw(node, k)
                    else:
                        del node.__dict__[k]
        stubs.set_identity(IDENT[self.fam])

    def close(self) -> None:
        self._restore()

    # ------------------------------------------------------------- operations
    def do(self, op: dict, canonical: bool = False):
        """Execute one model operation; returns (result, used-frame or '')."""
        k, st, n, a = op["k"], op["set"], op["n"], op["a"]
        rng = None if canonical else self.rng
        node = self.nodes[n]
        try:
            if k == "render":
                target = node if not self.is_class(n) else self._instance(n)
                ov = None if a["t"] == "unset" else a["s"]
                return ("ok", *self._frame(target, ov))
            if st == "rm":
                if k == "unset":
                    if self.rng.random() < 0.5:
                        node.set_render_method(None)
                    else:
                        node.set_render_method()
                else:
                    node.set_render_method(to_python(a, rng))
            elif k == "unset":
                delattr(node, PROP[st])
            else:
                setattr(node, PROP[st], to_python(a, rng))
        except MachineryError:
            raise
        except Exception as e:  # the outcome IS the observation
            return type(e).__name__, "", ""
        return "ok", "", ""

    def force(self, ov: dict) -> None:
        """Re-create a model state from scratch through plain *set* calls (resync)."""
        self.clean()
        for st, vals in ov.items():
            for i, r in enumerate(vals, 1):
                if r["t"] == "unset":
                    continue
                res = self.do({"k": "set", "set": st, "n": i, "a": r}, canonical=True)[0]
                if res != "ok":
                    raise ForceFailed(f"cannot force {st}[{i}] = {r}: {res}")

    # ------------------------------------------------------------ observation
    def _frame(self, inst, override: str | None) -> tuple[str, str]:
        """Render for real; returns (framing, pixel size of the transmitted data)."""
        if override is None:
            out = str(inst)
        else:
            letter = {"lines": "L", "whole": "W", "anim": "A"}[override]
            how = self.rng.random()
            if how < 0.7:
                out = format(inst, "+" + letter)
            else:
                buf = io.StringIO()
                with contextlib.redirect_stdout(buf):
                    inst.draw(method=self.rng.choice([override, override.upper()]))
                out = buf.getvalue()
        stream = lexer.lex(out, keep_payloads=self.fam == "iterm2")
        unk = lexer.unknowns(stream)
        if unk:
            raise MachineryError(f"c20: lexer does not know {unk[:3]}")
        sizes = []
        if self.fam == "kitty":
            for g in stream.gfx[1:]:
                if g["proto"] == "kitty" and g["a"] == "T":
                    sizes.append(f"{g['s']}x{g['v']}")
        else:
            from PIL import Image

            for g, payload in zip(stream.gfx[1:], stream.payloads[1:]):
                if g["proto"] == "iterm2" and g["inline"] == 1:
                    try:
                        with Image.open(io.BytesIO(base64.b64decode(payload))) as im:
                            sizes.append(f"{im.width}x{im.height}")
                    except Exception as e:
                        sizes.append("undecodable:" + type(e).__name__)
        cnt = len(sizes)
        px = sizes[0] if len(set(sizes)) == 1 else "mixed:" + ",".join(sizes)
        if cnt == self.rh:
            return "lines", px
        if cnt == 1:
            return "whole", px
        return f"bad{cnt}of{self.rh}", px

    def observe(self, render: bool = True, gate: bool = True) -> dict:
        eff: dict[str, list] = {}
        px = ["skip"] * self.n
        for st in SETTINGS:
            if st not in FAM_SETTINGS[self.fam]:
                eff[st] = [NA] * self.n
                continue
            vals = []
            for i in range(1, self.n + 1):
                node = self.nodes[i]
                if st != "fs" and not self.in_family(i):
                    vals.append(NA)  # only forced_support exists above / beside the style class
                    continue
                if st == "rm":
                    if not render:
                        vals.append(SKIP)
                        continue
                    try:
                        inst = node if not self.is_class(i) else self._instance(i)
                        frame, px[i - 1] = self._frame(inst, None)
                        vals.append(rec("str", 0, frame))
                    except MachineryError:
                        raise
                    except Exception as e:
                        vals.append(rec("error", 0, type(e).__name__))
                        px[i - 1] = "error"
                else:
                    try:
                        vals.append(enc(getattr(node, PROP[st])))
                    except Exception as e:
                        vals.append(rec("error", 0, type(e).__name__))
            eff[st] = vals
        gates = ["skip"] * self.n
        clr = ["skip"] * self.n
        if gate:
            import term_image.image.iterm2 as im
            import term_image.image.kitty as km
            from term_image.exceptions import StyleError

            emitted: list = []
            saved = (km._stdout_write, km.write_tty, im._stdout_write, im.write_tty)
            km._stdout_write = im._stdout_write = km.write_tty = im.write_tty = emitted.append
            stubs.set_identity(UNSUPPORTED_IDENT)
            try:
                for i in range(1, self.n + 1):
                    if not self.is_class(i) or self.abstract(i):
                        gates[i - 1] = clr[i - 1] = "na"
                        continue
                    # consumer 2: clear() of the invoking class
                    del emitted[:]
                    try:
                        self.nodes[i].clear(now=self.rng.random() < 0.3)
                        clr[i - 1] = "emits" if emitted else "silent"
                    except Exception as e:
                        clr[i - 1] = "error:" + type(e).__name__
                    # consumer 1: instantiation
                    try:
                        self._instance(i)
                        gates[i - 1] = "open"
                    except StyleError:
                        gates[i - 1] = "shut"
                    except Exception as e:
                        gates[i - 1] = "error:" + type(e).__name__
            finally:
                km._stdout_write, km.write_tty, im._stdout_write, im.write_tty = saved
                stubs.set_identity(IDENT[self.fam])
        return {"eff": eff, "gate": gates, "clr": clr, "px": px}


def clean_init(n: int) -> dict:
    return {st: [UNSET] * n for st in SETTINGS}
