SPECIFICATION Spec
CONSTANTS
  Rich = TRUE
  MaxWeight = 2
  PrevByRoute = FALSE
VIEW View
CONSTRAINT Bound
ACTION_CONSTRAINT Dump
INVARIANT InitDump
CHECK_DEADLOCK FALSE
