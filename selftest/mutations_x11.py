"""Seeded mutations for X11 (same record format as selftest/mutations_x08.py).

    /venv/bin/python -m selftest.mutations_x11 [id ...] [--thorough]     # runs ./check X11 on each mutant

Every mutant is applied to a scratch copy of /repo/src under /tmp (removed afterwards) and counts as
caught when the quick check exits 1 with at least one VIOLATION signature.  `baseline` is the
unchanged copy and must exit 0.
"""

from __future__ import annotations

import os
import shutil
import subprocess
import sys
from pathlib import Path

VERIF = Path(__file__).resolve().parent.parent

R = "renderable/_renderable.py"
C = "image/common.py"

LOOP_SLEEP = (
    "                sleep(\n"
    "                    max(0, duration_ms * 10**6 - (perf_counter_ns() - start_ns)) / 10**9\n"
    "                )\n"
)
LAST_SLEEP = "            sleep(max(0, duration_ms * 10**6 - (perf_counter_ns() - start_ns)) / 10**9)\n"
LOOP_RESET = (
    "                # render next frame during previous frame's duration\n"
    "                start_ns = perf_counter_ns()\n"
    "                duration_ms = frame.duration\n"
)
OLD_SLEEP = "                time.sleep(max(0, duration - (time.time() - start)))\n"
OLD_RESET = (
    "                # Render next frame during current frame's duration\n"
    "                start = time.time()\n"
)

MUTATIONS = {
    "baseline": dict(edits=[], expect_exit=0),
    # ---- new API: Renderable._animate_ ---------------------------------------------------------
    "x11-new-sleep-next-duration": dict(
        # the wait between two frames is the NEXT frame's duration (needs DYNAMIC durations)
        file=R, old=LOOP_SLEEP, new=LOOP_SLEEP.replace("duration_ms * 10**6", "frame.duration * 10**6"),
    ),
    "x11-new-start-before-write": dict(
        # the dwell is counted from before the write instead of from the flush (needs a write that takes time)
        edits=[dict(file=R, old="                # clear previous frame, if necessary\n",
                    new="                start_ns = perf_counter_ns()\n                # clear previous frame, if necessary\n"),
               dict(file=R, old=LOOP_RESET, new="                duration_ms = frame.duration\n")],
    ),
    "x11-new-max-dropped": dict(
        # a render that takes longer than the duration gives a negative sleep
        file=R, old=LOOP_SLEEP,
        new=LOOP_SLEEP.replace("max(0, duration_ms * 10**6 - (perf_counter_ns() - start_ns))",
                               "(duration_ms * 10**6 - (perf_counter_ns() - start_ns))"),
    ),
    "x11-new-unit-slip-us": dict(
        # the duration (ms) is taken for microseconds
        file=R, old=LOOP_SLEEP, new=LOOP_SLEEP.replace("duration_ms * 10**6", "duration_ms * 10**3"),
    ),
    "x11-new-unit-slip-last": dict(
        # the last sleep divides by 10^6: a thousand times too long
        file=R, old=LAST_SLEEP, new=LAST_SLEEP.replace("/ 10**9", "/ 10**6"),
    ),
    "x11-new-no-last-sleep": dict(
        # the last frame gets no dwell before the clean-up
        file=R, old=LAST_SLEEP, new="            pass\n",
    ),
    "x11-new-start-not-reset": dict(
        # the start time is that of the first frame for ever: cumulative
        file=R, old=LOOP_RESET, new="                duration_ms = frame.duration\n",
    ),
    "x11-new-dynamic-ignored": dict(
        # the first frame's duration is used for every frame
        file=R, old=LOOP_RESET, new="                start_ns = perf_counter_ns()\n",
    ),
    "x11-new-sleep-before-first": dict(
        file=R, old="            try:\n                write(frame.render_output)\n                flush()\n",
        new="            try:\n                sleep(frame.duration / 1000)\n                write(frame.render_output)\n                flush()\n",
    ),
    "x11-new-sleeps-whole-duration": dict(
        # ignores the time the render of the next frame took: drift
        file=R, old=LOOP_SLEEP, new="                sleep(duration_ms / 1000)\n",
    ),
    "x11-new-render-after-sleep": dict(
        # the next frame is rendered after the dwell instead of during it
        edits=[dict(file=R,
                    old="            for frame in render_iter:  # Render next frame\n"
                        "                # left-over of previous frame's duration\n" + LOOP_SLEEP,
                    new="            while True:\n" + LOOP_SLEEP +
                        "                try:\n                    frame = next(render_iter)\n"
                        "                except StopIteration:\n                    break\n"),
               dict(file=R, old=LAST_SLEEP, new="            pass\n")],
    ),
    "x11-new-interrupt-continues": dict(
        # Ctrl-C during the write of a frame does not end the animation
        file=R,
        old="                    self._handle_interrupted_draw_(render_data, render_args, output)\n"
            "                    return\n\n                write(cursor_to_render_top_left)\n",
        new="                    self._handle_interrupted_draw_(render_data, render_args, output)\n"
            "                    continue\n\n                write(cursor_to_render_top_left)\n",
    ),
    "x11-new-interrupt-propagates": dict(
        file=R, old="        except KeyboardInterrupt:\n            pass\n        finally:\n            render_iter.close()\n",
        new="        except KeyboardInterrupt:\n            raise\n        finally:\n            render_iter.close()\n",
    ),
    "x11-new-cache-ignored": dict(
        # the second loop renders again (and pays for it)
        file=R, old="            False if loops == 1 else cache,\n", new="            False,\n",
    ),
    "x11-new-live-duration": dict(
        # reads the renderable's frame_duration instead of the frame's: follows a change made meanwhile,
        # breaks DYNAMIC
        file=R, old=LOOP_RESET,
        new="                start_ns = perf_counter_ns()\n                duration_ms = self.frame_duration\n",
    ),
    # ---- old API: BaseImage._display_animated ---------------------------------------------------
    "x11-old-max-dropped": dict(
        file=C, old=OLD_SLEEP, new="                time.sleep(duration - (time.time() - start))\n",
    ),
    "x11-old-start-before-print": dict(
        edits=[dict(file=C, old="                self._clear_frame()\n                print(\"\\r\", cursor_up, frame,",
                    new="                start = time.time()\n                self._clear_frame()\n                print(\"\\r\", cursor_up, frame,"),
               dict(file=C, old=OLD_RESET, new="")],
    ),
    "x11-old-start-not-reset": dict(file=C, old=OLD_RESET, new=""),
    "x11-old-unit-ms": dict(
        # the file's duration (ms) is not converted to seconds
        file=C, old='            self._frame_duration = (image.info.get("duration") or 100) / 1000\n',
        new='            self._frame_duration = float(image.info.get("duration") or 100)\n',
    ),
    "x11-old-sleeps-whole-duration": dict(file=C, old=OLD_SLEEP, new="                time.sleep(duration)\n"),
    "x11-old-live-duration": dict(
        # the loop follows a change of frame_duration made meanwhile (the model keeps the start value)
        file=C, old=OLD_SLEEP,
        new="                time.sleep(max(0, self._frame_duration - (time.time() - start)))\n",
    ),
    "x11-old-interrupt-propagates": dict(
        file=C, old="        except KeyboardInterrupt:\n            self._handle_interrupted_draw()\n        except Exception:\n",
        new="        except KeyboardInterrupt:\n            self._handle_interrupted_draw()\n            raise\n        except Exception:\n",
    ),
    "x11-old-cache-ignored": dict(
        file=C, old="        self._cached = repeat != 1 and (\n", new="        self._cached = False and (\n",
    ),
    "x11-old-sleep-before-first": dict(
        file=C, old="            print(next(image_it._animator), end=\"\", flush=True)  # First frame\n",
        new="            time.sleep(duration)\n            print(next(image_it._animator), end=\"\", flush=True)  # First frame\n",
    ),
    "x11-old-one-loop-more": dict(
        # repeat counted wrongly: one loop too many
        file=C, old="        self._loop_no = repeat = self._repeat\n",
        new="        self._loop_no = repeat = self._repeat + (self._repeat > 0)\n",
    ),
}


def apply(mid: str, m: dict) -> Path:
    root = Path(f"/tmp/verif-selftest-x11-{mid}")
    shutil.rmtree(root, ignore_errors=True)
    root.mkdir(parents=True)
    subprocess.run(["rsync", "-a", "/repo/src", str(root) + "/"], check=True)
    edits = list(m["edits"]) if "edits" in m else [m]
    for e in edits:
        f = root / "src" / "term_image" / e["file"]
        text = f.read_text()
        if text.count(e["old"]) != 1:
            shutil.rmtree(root, ignore_errors=True)
            raise SystemExit(f"{mid}: pattern occurs {text.count(e['old'])} times in {e['file']}")
        f.write_text(text.replace(e["old"], e["new"]))
    if subprocess.run([sys.executable, "-m", "compileall", "-q", str(root / "src" / "term_image")]).returncode:
        shutil.rmtree(root, ignore_errors=True)
        raise SystemExit(f"{mid}: the mutant does not compile")
    return root


def run(mid: str, tier: str = "quick") -> bool:
    m = MUTATIONS[mid]
    root = apply(mid, m)
    try:
        env = dict(os.environ, VERIF_REPO=str(root))
        p = subprocess.run([str(VERIF / "check"), "X11", "--tier", tier], env=env, cwd=VERIF,
                           stdout=subprocess.PIPE, stderr=subprocess.STDOUT, text=True, timeout=3600)
    finally:
        shutil.rmtree(root, ignore_errors=True)
    sigs = sorted({l.strip()[len("signature: "):] for l in p.stdout.splitlines() if l.strip().startswith("signature:")})
    want = m.get("expect_exit", 1)
    ok = p.returncode == want and (want == 0 or bool(sigs))
    status = ("as expected" if want == 0 else "caught") if ok else ("MACHINERY" if p.returncode == 2 else "MISSED")
    print(f"MUT {mid} X11 exit={p.returncode} {status} {sigs}", flush=True)
    if p.returncode == 2 or (want == 0 and not ok):
        print("\n".join(p.stdout.splitlines()[-15:]))
    return ok


def main() -> int:
    args = [a for a in sys.argv[1:] if not a.startswith("--")]
    tier = "thorough" if "--thorough" in sys.argv else "quick"
    ids = args or list(MUTATIONS)
    bad = [m for m in ids if not run(m, tier)]
    print(f"{len(ids) - len(bad)}/{len(ids)} as expected" + (f"; not: {bad}" if bad else ""))
    return 1 if bad else 0


if __name__ == "__main__":
    sys.exit(main())
