"""C08 - a render iterator yields exactly the frames its operation history dictates.

model:   specs/RenderIter.tla (MC_RenderIter_{A,B,C}.cfg): every history up to a depth bound
         over next / seek / set_* / close / drop (+ failing renders), definite and INDEFINITE
         sources; action properties SeekNoLoop, RejectedChangesNothing, FrameMatchesSettings,
         LoopCountdown, PendingSeekOnce, ...
binding: spec -> code: every edge of the explored graph is replayed into the real
         RenderIterator over an instrumented renderable (harness/iterkit.py), comparing the
         projected result, `loop`, finalization count and the renderable's own frame after
         every operation; code -> spec: seeded random long histories recorded from the real
         iterator and validated by TLC (Trace_RenderIter.tla).
"""

from __future__ import annotations

from .. import iter_replay, iter_traces
from ..core import Report

ASSUMPTIONS = [
    "terminal size 8x6 (relative paddings resolve against it) supplied by a substituted "
    "utils.get_terminal_size",
    "the probe renderable's render output encodes (frame, size, args); size/margins/args of a "
    "yielded frame are decoded from that output",
]


def straight(rep: Report) -> None:
    """Design level: next() only - exactly loops x N frames, numbered in order, then stopped for
    good; an infinite iteration never stops (MC_RenderIterStraight.tla).  The same histories are
    run on the real iterator by iter_traces.straight_scripts()."""
    from .. import tlc

    for cfg in ("MC_RenderIterStraight.cfg", "MC_RenderIterStraight_indef.cfg"):
        res = tlc.run("MC_RenderIterStraight", cfg, workers=2, timeout=300, deadlock=False)
        rep.add_tlc(res)
        if res.violated:
            rep.violation(f"design:RenderIterStraight:{res.violated}",
                          f"{cfg} violates {res.violated}:\n{res.error_text[:1200]}",
                          {"kind": "design", "cfg": cfg})
        elif res.distinct < 10:
            raise tlc.MachineryError(f"vacuous straight-iteration model ({cfg}): {res.distinct} states")


def main(rep: Report, replay: dict | None, which=("A", "C", "B"), pair=False) -> None:
    from ..env import stubs

    stubs.install()
    stubs.set_term(size=(8, 6))
    rep.assumptions += ASSUMPTIONS
    rep.rule = (
        "spec->code: all edges of the RenderIter.tla state graph within the depth bound, covered "
        "by walks executed on fresh real iterators (+3 probing next() calls per walk); "
        "code->spec: seeded random histories validated by TLC; distinct = walks + traces"
    )
    if replay:
        sc = replay["scenario"]
        kind = sc.get("kind")
        if kind == "trace":
            iter_traces.replay_scenario(rep, sc)
        elif kind == "ctor":  # the constructor table is small: replay = re-run the stage
            from .. import ctor_replay

            ctor_replay.run(rep)
        elif kind == "seek":
            from .. import seek_replay

            seek_replay.run(rep)
        elif kind == "design":
            for name in which:
                iter_replay.model_check(rep, name, 5)
            straight(rep)
        else:
            iter_replay.replay_scenario(rep, sc)
        return
    depth = 5 if rep.tier == "quick" else 7
    for name in which:
        d = depth if name != "C" else min(depth, 6)
        if pair and name == "B" and rep.tier == "quick":
            d = 6  # C09: one level deeper, so that "cache under X, change X, revisit" fits
        if name == "D":  # C09: small configuration (2 frames, unhashable render-argument values)
            d = 5 if rep.tier == "quick" else 8
        g = iter_replay.model_check(rep, name, d)
        if g is not None:
            iter_replay.replay(rep, name, g, pair=pair and name in ("B", "D"))
    if which == ("A", "C", "B"):
        straight(rep)
    iter_traces.run(rep, n_traces=1500 if rep.tier == "quick" else (8000 if pair else 20000), pair=pair)
    if which == ("A", "C", "B"):  # C08 proper: also the renderable's own seek/tell/frame_count
        from .. import seek_replay

        seek_replay.run(rep)
        from .. import ctor_replay

        ctor_replay.run(rep)
        if rep.tier == "thorough":
            from .. import apalache

            # PadDims (RenderIter.tla / Padding.tla) for ALL integers, not only the enumerated ones
            apalache.check_inv(rep, "Apa_PadDims.tla", "Laws", "PadDims-laws-unbounded")
    rep.exhaustive = False
