------------------------- MODULE ActiveTerminalCore -------------------------
(***************************************************************************)
(* X07: which terminal `term_image.utils.get_terminal_size()` asks.          *)
(*                                                                         *)
(* Documented (guide/concepts "The Active Terminal", glossary, docstring):   *)
(*  * the active terminal is "the first TTY device discovered upon loading   *)
(*    the package"; "The following streams/files are checked in the following*)
(*    order": STDOUT, STDIN, STDERR, /dev/tty (the controlling terminal);     *)
(*    "The first one that is ascertained to be a terminal device is used";    *)
(*    "If none of the streams/files is a TTY device, then a TermImageWarning  *)
(*    is issued and dependent functionality is disabled";                    *)
(*  * get_terminal_size() "Returns the current size of the active terminal", *)
(*    "gives the correct size of the active terminal even when output is     *)
(*    redirected", unlike shutil.get_terminal_size (which believes COLUMNS / *)
(*    LINES and only looks at stdout).                                       *)
(* Not documented, modelled as the named fallback branch (what the code      *)
(* does: shutil.get_terminal_size() as documented by the Python library):    *)
(*  * without an active terminal, or when it cannot be asked any more (hung   *)
(*    up), each dimension is COLUMNS / LINES if set to a positive number,     *)
(*    else what the terminal behind stdout reports, else 80 x 24.             *)
(*                                                                         *)
(* conf = [out, in, err, ctty]: the tty (id >= 1) behind each standard        *)
(* stream / the controlling terminal, 0 = not a terminal / none.             *)
(***************************************************************************)
EXTENDS Naturals, Sequences

Ttys == 1..4
NoEnv == [c |-> 0, l |-> 0]

Order(conf) == <<conf.out, conf.in, conf.err, conf.ctty>>       \* the documented priority
Discover(conf) ==
  LET o == Order(conf)
      I == {i \in 1..4 : o[i] # 0} IN
  IF I = {} THEN 0 ELSE o[CHOOSE i \in I : \A j \in I : i <= j]
\* which stream / file provided it: 1 stdout, 2 stdin, 3 stderr, 4 /dev/tty, 0 none
DiscoveredVia(conf) ==
  LET o == Order(conf)
      I == {i \in 1..4 : o[i] # 0} IN
  IF I = {} THEN 0 ELSE CHOOSE i \in I : \A j \in I : i <= j

Used(conf) == {conf.out, conf.in, conf.err, conf.ctty} \ {0}

Fallback(conf, alive, size, env) ==
  LET viaOut == conf.out # 0 /\ alive[conf.out] IN
  <<IF env.c > 0 THEN env.c ELSE IF viaOut /\ size[conf.out][1] > 0 THEN size[conf.out][1] ELSE 80,
    IF env.l > 0 THEN env.l ELSE IF viaOut /\ size[conf.out][2] > 0 THEN size[conf.out][2] ELSE 24>>

\* the answer of get_terminal_size()
Answer(conf, active, alive, size, env) ==
  IF active # 0 /\ alive[active] THEN size[active] ELSE Fallback(conf, alive, size, env)

WFConf(conf) == \A x \in {conf.out, conf.in, conf.err, conf.ctty} : x \in 0..4
=============================================================================
