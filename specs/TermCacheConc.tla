--------------------------- MODULE TermCacheConc ---------------------------
(***************************************************************************)
(* C15, concurrency of the settings toggles with get_cell_size().           *)
(*                                                                         *)
(* Threads run statement-level programs of term_image:                      *)
(*   enable_win_size_swap / disable_win_size_swap / enable_queries          *)
(*       rf   if <flag already has the value>: return                       *)
(*       wf   flag = value                                                  *)
(*       rl   read utils._cell_size_lock                                    *)
(*       aq   acquire it; utils._cell_size_cache[:] = (0,) * 4              *)
(*       rel  release                                                       *)
(*   get_cell_size()                                                        *)
(*       ra aa rb ab   with _cell_size_lock, _cell_size_lock                *)
(*       ts   terminal_size = get_terminal_size(); cache hit -> return      *)
(*       io   TIOCGWINSZ: pixel size present -> fl, else query              *)
(*       rq   query_terminal: reads _queries_enabled (None when disabled)   *)
(*       fl   reads _swap_win_size, computes, stores size + cell in cache   *)
(*       xb xa  release, release                                            *)
(* The property (statement of C15: "after any history of ... toggles ...    *)
(* for every thread interleaving"): once every program has finished, what   *)
(* get_cell_size() returns is what TermCacheCore allows for the CURRENT     *)
(* settings.  The order "flag first, then clear under the lock" is what     *)
(* makes it hold: a computation that used the old flag either stored before *)
(* the clear or did not start before the flag was written.                  *)
(***************************************************************************)
EXTENDS TermCacheCore, TLC

CONSTANTS
  Prog,      \* <<kind_1, ...>>, kind \in {"EnableSwap", "DisableSwap", "EnableQueries", "Get"}
  Env,       \* environment record (TermCacheCore); xt = "text"
  Swap0, Queries0, Cache0,
  Variant    \* "code" | "clearfirst" (cache cleared before the flag is assigned)

Threads == 1..Len(Prog)
Toggles == {"EnableSwap", "DisableSwap", "EnableQueries"}

VARIABLES swap, queries, lk, cache, th, out
vars == <<swap, queries, lk, cache, th, out>>
View == <<swap, queries, lk, cache, th>>

Target(k) == k # "DisableSwap"                      \* the value the toggle assigns
Flag(k) == IF k = "EnableQueries" THEN queries ELSE swap
Zero == <<0, 0, 0, 0>>

Init ==
  /\ swap = Swap0 /\ queries = Queries0
  /\ lk = [o |-> 0, n |-> 0]
  /\ cache = Cache0
  /\ th = [t \in Threads |-> [pc |-> IF Prog[t] = "Get" THEN "ra" ELSE "rf", q |-> TRUE, res |-> <<>>]]
  /\ out = [t |-> 0, act |-> "init"]

At(t, pc) == th[t].pc = pc
Free(t) == lk.o \in {0, t}
Take(t) == [o |-> t, n |-> lk.n + 1]
Drop == IF lk.n <= 1 THEN [o |-> 0, n |-> 0] ELSE [o |-> lk.o, n |-> lk.n - 1]
Goto(t, pc) == th' = [th EXCEPT ![t].pc = pc]
Step(t, a) == out' = [t |-> t, act |-> a]
AllDone == \A t \in Threads : th[t].pc = "done"
BlockedSet == {t \in Threads : th[t].pc \in {"aq", "aa", "ab"} /\ ~Free(t)}

(* ---- toggles ---- *)
RF(t) ==
  /\ Prog[t] \in Toggles /\ At(t, "rf")
  /\ Goto(t, IF Flag(Prog[t]) = Target(Prog[t]) THEN "done" ELSE IF Variant = "clearfirst" THEN "rl" ELSE "wf")
  /\ Step(t, "RF") /\ UNCHANGED <<swap, queries, lk, cache>>

WF(t) ==
  /\ Prog[t] \in Toggles /\ At(t, "wf")
  /\ IF Prog[t] = "EnableQueries" THEN queries' = TRUE /\ UNCHANGED swap
                                   ELSE swap' = Target(Prog[t]) /\ UNCHANGED queries
  /\ Goto(t, IF Variant = "clearfirst" THEN "done" ELSE "rl")
  /\ Step(t, "WF") /\ UNCHANGED <<lk, cache>>

RL(t) ==
  /\ Prog[t] \in Toggles /\ At(t, "rl")
  /\ Goto(t, "aq") /\ Step(t, "RL") /\ UNCHANGED <<swap, queries, lk, cache>>

AQ(t) ==
  /\ Prog[t] \in Toggles /\ At(t, "aq") /\ Free(t)
  /\ lk' = Take(t) /\ cache' = Zero
  /\ Goto(t, "rel") /\ Step(t, "AQ") /\ UNCHANGED <<swap, queries>>

REL(t) ==
  /\ Prog[t] \in Toggles /\ At(t, "rel")
  /\ lk' = Drop
  /\ Goto(t, IF Variant = "clearfirst" THEN "wf" ELSE "done")
  /\ Step(t, "REL") /\ UNCHANGED <<swap, queries, cache>>

(* ---- get_cell_size ---- *)
G(t, from, to, a) == Prog[t] = "Get" /\ At(t, from) /\ Goto(t, to) /\ Step(t, a)
ReadA(t) == G(t, "ra", "aa", "ReadA") /\ UNCHANGED <<swap, queries, lk, cache>>
AcqA(t) == G(t, "aa", "rb", "AcqA") /\ Free(t) /\ lk' = Take(t) /\ UNCHANGED <<swap, queries, cache>>
ReadB(t) == G(t, "rb", "ab", "ReadB") /\ UNCHANGED <<swap, queries, lk, cache>>
AcqB(t) == G(t, "ab", "ts", "AcqB") /\ Free(t) /\ lk' = Take(t) /\ UNCHANGED <<swap, queries, cache>>

Hit == cache[1] = Env.cols /\ cache[2] = Env.rows
TS(t) ==
  /\ Prog[t] = "Get" /\ At(t, "ts")
  /\ th' = [th EXCEPT ![t].pc = IF Hit THEN "xb" ELSE "io",
                      ![t].res = IF Hit THEN Norm(<<cache[3], cache[4]>>) ELSE <<>>]
  /\ Step(t, "TS") /\ UNCHANGED <<swap, queries, lk, cache>>

IO(t) == G(t, "io", IF Env.iopx THEN "fl" ELSE "rq", "IO") /\ UNCHANGED <<swap, queries, lk, cache>>

Stored(cell) == <<Env.cols, Env.rows, cell[1], cell[2]>>
\* query_terminal(): `if not _queries_enabled: return None`
RQ(t) ==
  /\ Prog[t] = "Get" /\ At(t, "rq")
  /\ IF queries /\ Env.xt = "text"
       THEN /\ Goto(t, "fl") /\ UNCHANGED cache
       ELSE /\ cache' = Stored(None)
            /\ th' = [th EXCEPT ![t].pc = "xb", ![t].res = None]
  /\ Step(t, "RQ") /\ UNCHANGED <<swap, queries, lk>>

\* `if _swap_win_size: text_area_size = text_area_size[::-1]`; floor division; store
FL(t) ==
  /\ Prog[t] = "Get" /\ At(t, "fl")
  /\ LET text == IF swap THEN <<Env.ypx, Env.xpx>> ELSE <<Env.xpx, Env.ypx>>
         cell == Norm(<<text[1] \div Env.cols, text[2] \div Env.rows>>) IN
       /\ cache' = Stored(cell)
       /\ th' = [th EXCEPT ![t].pc = "xb", ![t].res = cell]
  /\ Step(t, "FL") /\ UNCHANGED <<swap, queries, lk>>

RelB(t) == G(t, "xb", "xa", "RelB") /\ lk' = Drop /\ UNCHANGED <<swap, queries, cache>>
RelA(t) == G(t, "xa", "done", "RelA") /\ lk' = Drop /\ UNCHANGED <<swap, queries, cache>>

Next ==
  \E t \in Threads :
    \/ RF(t) \/ WF(t) \/ RL(t) \/ AQ(t) \/ REL(t)
    \/ ReadA(t) \/ AcqA(t) \/ ReadB(t) \/ AcqB(t) \/ TS(t) \/ IO(t) \/ RQ(t) \/ FL(t) \/ RelB(t) \/ RelA(t)

Spec == Init /\ [][Next]_vars

-----------------------------------------------------------------------------
\* what get_cell_size() returns if called now, nobody else running
WouldReturn == IF Hit THEN Norm(<<cache[3], cache[4]>>) ELSE Compute(Env, swap, queries).cell
QuiescentAllowed == AllowedCells(<<>>, Env, swap, queries)

\* at quiescence the cached facts equal a fresh computation for the CURRENT settings
QuiescentFresh == AllDone => WouldReturn \in QuiescentAllowed

LockFree == AllDone => lk.n = 0
=============================================================================
